"""C17, loop clause - what the on-policy training loops RECORD is what the environment produced.

The statement's d_{t+1} is "the episode of this environment (and agent) is over after step t".  ``PPO.learn`` / ``IPPO.learn``
receive it as stored ``dones[t+1]`` / ``next_done`` (see c17.py); the obligations there decide that learn() turns THOSE flags
into the right estimates.  This obligation closes the other half named in the property's anchors ("train_on_policy records
done flags one step late and next_done"): the real ``train_on_policy`` / ``train_multi_agent_on_policy`` are run on a scripted
environment whose every step (observation handed out, reward, terminated, truncated - per env and per agent) is logged by the
environment itself, ``learn`` of the learner's class is wrapped by a recording pass-through for the duration of the run, and
each rollout handed to learn() is compared cell by cell with the environment's own log of the steps that produced it:

    states[t]     == the observation the environment returned right before step t
    rewards[t]    == the reward of step t
    dones[t], t>0 == terminated | truncated of step t-1          (the episode ended, however it ended)
    next_done     == terminated | truncated of the last step,  next_state == the observation it returned
    values[t] / log_probs[t] / actions[t] == what get_action returned for states[t] (recorded by a pass-through, too)

``dones[0]`` is not examined: no estimate reads it.  An episode end is drawn per (agent, env, step) from {none, terminated,
truncated, both}; the flags cycle with a drawn period, so ends fall on first, interior and last steps of rollouts.
No source hooks; the env is duck-typed (``num_envs`` + gymnasium / PettingZoo-parallel call signatures the loops use).
"""
from __future__ import annotations

import contextlib
import copy
import io
import os
import shutil
import tempfile

import numpy as np
import torch
from gymnasium import spaces
from hypothesis import strategies as st

from vp.core.engine import HarnessError, site_of
from vp.gen import agents as ag

FLAG = {0: (False, False), 1: (True, False), 2: (False, True), 3: (True, True)}
FLAG_NAME = {1: "termination", 2: "truncation", 3: "termination+truncation"}


class ScriptedVec:
    """Single-agent vector env (E >= 1) or single env (E == 0): logs what it hands out."""

    def __init__(self, E, act_space, script):
        self.E = E
        self.rows = max(E, 1)
        if E:
            self.num_envs = E
        self.single_observation_space = self.observation_space = spaces.Box(0.0, 1.0, (3,), np.float32)
        self.single_action_space = self.action_space = act_space
        self.script = script  # rows lists of flag codes, cycled
        self.k = 0  # steps so far
        self.ep = 0
        self.log = []
        self.last = None

    def _obs(self):
        self.ep += 1
        o = np.zeros((self.rows, 3), np.float32)
        o[:, 0] = (self.k % 251) / 256.0
        o[:, 1] = np.arange(self.rows) / 8.0
        o[:, 2] = (self.ep % 61) / 64.0
        return o if self.E else o[0]

    def reset(self, seed=None, options=None):
        self.last = self._obs()
        return self.last, {}

    def step(self, action):
        k = self.k
        codes = [self.script[e][k % len(self.script[e])] for e in range(self.rows)]
        term = np.array([FLAG[c][0] for c in codes])
        trunc = np.array([FLAG[c][1] for c in codes])
        rew = np.array([((k * self.rows + e) % 127 + 1) / 64.0 for e in range(self.rows)], np.float64)
        before = self.last
        self.k += 1
        self.last = self._obs()
        self.log.append({"before": before, "after": self.last, "reward": rew, "term": term, "trunc": trunc, "codes": codes,
                         "action": copy.deepcopy(action)})
        if self.E:
            return self.last, rew, term, trunc, {}
        return self.last, float(rew[0]), bool(term[0]), bool(trunc[0]), {}

    def close(self):
        pass


class ScriptedPZVec:
    """Vectorised PettingZoo-parallel look-alike: dicts of (E, ...) arrays per agent."""

    metadata = {}
    render_mode = None

    def __init__(self, E, ids, act_spaces, script):
        self.num_envs = E
        self.agents = list(ids)
        self.possible_agents = list(ids)
        self._obs_space = spaces.Box(0.0, 1.0, (3,), np.float32)
        self._act = dict(zip(ids, act_spaces))
        self.script = script  # script[a][e] = cycled flag codes
        self.k = 0
        self.ep = 0
        self.log = []
        self.last = None

    def observation_space(self, agent):
        return self._obs_space

    def action_space(self, agent):
        return self._act[agent]

    def _obs(self):
        self.ep += 1
        out = {}
        for i, a in enumerate(self.agents):
            o = np.zeros((self.num_envs, 3), np.float32)
            o[:, 0] = (self.k % 251) / 256.0
            o[:, 1] = np.arange(self.num_envs) / 8.0 + i / 32.0
            o[:, 2] = (self.ep % 61) / 64.0
            out[a] = o
        return out

    def _info(self):
        return {a: {} for a in self.agents}

    def reset(self, seed=None, options=None):
        self.last = self._obs()
        return self.last, self._info()

    def step(self, actions):
        k, E = self.k, self.num_envs
        term, trunc, rew, codes = {}, {}, {}, {}
        for i, a in enumerate(self.agents):
            c = [self.script[i][e][k % len(self.script[i][e])] for e in range(E)]
            codes[a] = c
            term[a] = np.array([FLAG[x][0] for x in c])
            trunc[a] = np.array([FLAG[x][1] for x in c])
            rew[a] = np.array([(((k * E + e) * len(self.agents) + i) % 127 + 1) / 64.0 for e in range(E)], np.float64)
        before = self.last
        self.k += 1
        self.last = self._obs()
        self.log.append({"before": before, "after": self.last, "reward": rew, "term": term, "trunc": trunc, "codes": codes,
                         "action": copy.deepcopy(actions)})
        return self.last, rew, term, trunc, self._info()

    def close(self):
        pass


@contextlib.contextmanager
def recording(cls, env, rollouts, acts):
    orig_learn, orig_ga = cls.learn, cls.get_action

    def learn(self, experiences, *a, **k):
        rollouts.append({"exp": copy.deepcopy(experiences), "steps": len(env.log)})
        return orig_learn(self, experiences, *a, **k)

    def get_action(self, *a, **k):
        out = orig_ga(self, *a, **k)
        if getattr(self, "training", True):
            acts.append({"out": copy.deepcopy(out), "steps": len(env.log)})
        return out

    cls.learn, cls.get_action = learn, get_action
    try:
        yield
    finally:
        cls.learn, cls.get_action = orig_learn, orig_ga


def _arr(x):
    if isinstance(x, torch.Tensor):
        x = x.detach().cpu().numpy()
    return np.asarray(x)


def _same(a, b):
    a, b = _arr(a).astype(np.float64), _arr(b).astype(np.float64)
    return a.size == b.size and np.array_equal(a.reshape(-1), b.reshape(-1))


def _flag_kind(codes_wrong):
    ks = sorted({FLAG_NAME.get(c, "no_end") for c in codes_wrong})
    return "+".join(ks) if len(ks) == 1 else "several_kinds"


def _compare_rollout(ctx, site, ro, env, agents_of, multi):
    exp, upto = ro["exp"], ro["steps"]
    states, actions, log_probs, rewards, dones, values, next_state, next_done = exp
    ids = agents_of if multi else [None]

    def col(x, a):
        return x[a] if multi else x

    T = len(col(states, ids[0]))
    if not ctx.check(1 <= T <= upto, f"{site}/rollout_length", f"learn() got {T} steps, environment has produced {upto}"):
        return None
    seg = env.log[upto - T: upto]
    ends = 0
    for a in ids:
        st_, rw, dn = col(states, a), col(rewards, a), col(dones, a)
        ctx.check(len(rw) == T and len(dn) == T, f"{site}/column_lengths", "columns of one rollout differ in length")
        for t in range(T):
            e = seg[t]
            ctx.check(_same(st_[t], col(e["before"], a)), f"{site}/states", f"states[{t}] is not the observation the environment handed out before that step",
                      t=t, agent=a)
            ctx.check(_same(rw[t], col(e["reward"], a)), f"{site}/rewards", f"rewards[{t}] is not the reward of that step", t=t, agent=a)
            flags = np.logical_or(col(e["term"], a), col(e["trunc"], a)).astype(np.float64).reshape(-1)
            codes = col(e["codes"], a)
            ends += int(flags.sum())
            got = _arr(dn[t + 1]).astype(np.float64).reshape(-1) if t + 1 < T else _arr(col(next_done, a)).astype(np.float64).reshape(-1)
            where = "dones" if t + 1 < T else "next_done"
            if got.shape != flags.shape or not np.array_equal(got, flags):
                wrong = [codes[i] for i in range(len(codes))] if got.shape != flags.shape else [codes[i] for i in range(len(codes)) if got[i] != flags[i]]
                ctx.fail(f"{site}/{where}/{_flag_kind(wrong)}",
                         f"{where} recorded for the end of step {t} is {got.tolist()} but the environment reported terminated|truncated = {flags.tolist()}",
                         t=t, agent=a, env_codes=codes)
        ctx.check(_same(col(next_state, a), col(seg[-1]["after"], a)), f"{site}/next_state",
                  "next_state is not the observation returned by the last step of the rollout", agent=a)
    return T, ends, seg


def run_loop(case, ctx):
    algo, E = case["algo"], case["E"]
    multi = algo == "IPPO"
    site = f"C17/loop/{algo}"
    torch.set_num_threads(1)
    ag.seed_all(case["seed"])
    act_kind = case["act"]
    work = tempfile.mkdtemp(prefix="vpc17_")
    cwd = os.getcwd()
    os.chdir(work)
    try:
        if multi:
            n = case["agents"]
            ids = ag.AGENT_IDS[:n]
            spec = {"algo": "IPPO", "obs": ["vector3"] * n, "act": [act_kind] * n, "seed": case["seed"],
                    "hp": {"batch_size": 4, "learn_step": case["learn_step"]}}
        else:
            spec = {"algo": "PPO", "obs": "vector3", "act": act_kind, "seed": case["seed"], "hp": {"batch_size": 4, "learn_step": case["learn_step"]}}
        try:
            obs_space, act_space = _spaces(multi, case)
            agent = _build(multi, obs_space, act_space, case)
        except Exception as e:  # noqa: BLE001 - construction is not this clause's promise
            raise HarnessError(f"could not build the learner: {type(e).__name__}: {e}")
        if multi:
            env = ScriptedPZVec(E, ids, act_space, case["script"])
        else:
            env = ScriptedVec(E, act_space, case["script"])
        rollouts, acts = [], []
        sink = io.StringIO()
        kw = dict(max_steps=case["max_steps"], evo_steps=case["evo_steps"], eval_steps=2, eval_loop=1, tournament=None, mutation=None,
                  wb=False, verbose=False, checkpoint=None)
        with recording(type(agent), env, rollouts, acts), contextlib.redirect_stdout(sink), contextlib.redirect_stderr(sink):
            try:
                if multi:
                    from agilerl.training.train_multi_agent_on_policy import train_multi_agent_on_policy

                    train_multi_agent_on_policy(env, "env", "IPPO", [agent], **kw)
                else:
                    from agilerl.training.train_on_policy import train_on_policy

                    train_on_policy(env, "env", "PPO", [agent], **kw)
            except Exception as e:  # noqa: BLE001 - "runs to completion" is C20's clause
                ctx.label(f"loop-raised:{type(e).__name__}@{site_of(e)}")
                if not rollouts:
                    return
        if not rollouts:
            raise HarnessError("the loop finished without calling learn()")
        ctx.label(f"algo={algo}")
        ctx.label("E=single" if E == 0 else f"E={min(E, 3)}")
        total_ends = 0
        kinds = set()
        for ro in rollouts:
            res = _compare_rollout(ctx, site, ro, env, ag.AGENT_IDS[: case.get("agents", 0)], multi)
            if res is None:
                continue
            T, ends, seg = res
            total_ends += ends
            for e in seg:
                cs = e["codes"]
                flat = [c for v in cs.values() for c in v] if isinstance(cs, dict) else cs
                kinds.update(c for c in flat if c)
            last = seg[-1]["codes"]
            flat = [c for v in last.values() for c in v] if isinstance(last, dict) else last
            if any(flat):
                ctx.label("end@last-step-of-rollout")
            first = seg[0]["codes"]
            flat = [c for v in first.values() for c in v] if isinstance(first, dict) else first
            if any(flat):
                ctx.label("end@first-step-of-rollout")
        # what get_action returned is what the rollout stores (values / log-probs of the SAME step)
        by_steps = {a["steps"]: a["out"] for a in acts}
        for ro in rollouts:
            exp, upto = ro["exp"], ro["steps"]
            ids_ = ag.AGENT_IDS[: case.get("agents", 0)] if multi else [None]
            T = len(exp[0][ids_[0]]) if multi else len(exp[0])
            for t in range(T):
                out = by_steps.get(upto - T + t)
                if out is None:
                    continue
                action, log_prob, _ent, value = out
                for a in ids_:
                    g = (lambda x: x[a]) if multi else (lambda x: x)
                    ctx.check(_same(g(exp[5])[t], g(value)), f"{site}/values", f"values[{t}] is not the value get_action reported for states[{t}]", agent=a)
                    ctx.check(_same(g(exp[2])[t], g(log_prob)), f"{site}/log_probs", f"log_probs[{t}] is not what get_action reported for states[{t}]", agent=a)
                    ctx.check(_same(g(exp[1])[t], g(action)), f"{site}/actions", f"actions[{t}] is not the action get_action reported for states[{t}]", agent=a)
        for c in sorted(kinds):
            ctx.label(f"end-kind={FLAG_NAME[c]}")
        if total_ends and len(rollouts) >= 1:
            ctx.nontrivial([algo, E, case.get("agents"), case["script"], case["learn_step"], case["evo_steps"], case["max_steps"]])
    finally:
        os.chdir(cwd)
        shutil.rmtree(work, ignore_errors=True)


def _act_space(kind):
    if kind == "discrete":
        return spaces.Discrete(3)
    if kind == "box":
        return spaces.Box(-1.0, 1.0, (2,), np.float32)
    raise HarnessError(kind)


def _spaces(multi, case):
    obs = spaces.Box(0.0, 1.0, (3,), np.float32)
    if multi:
        return [obs] * case["agents"], [_act_space(case["act"]) for _ in range(case["agents"])]
    return obs, _act_space(case["act"])


def _build(multi, obs_space, act_space, case):
    from agilerl.algorithms import IPPO, PPO

    net = {"encoder_config": {"hidden_size": [8]}, "head_config": {"hidden_size": [8]}, "latent_dim": 8}
    if multi:
        ids = ag.AGENT_IDS[: case["agents"]]
        return IPPO(obs_space, act_space, ids, net_config=net, batch_size=4, learn_step=case["learn_step"], update_epochs=1, lr=1e-4)
    return PPO(obs_space, act_space, net_config=net, batch_size=4, learn_step=case["learn_step"], update_epochs=1, lr=1e-4)


@st.composite
def loop_strategy(draw, tier, algo):
    multi = algo == "IPPO"
    E = draw(st.sampled_from([1, 2, 3] if multi else [0, 1, 2, 3]))
    rows = max(E, 1)
    code = st.sampled_from([0, 0, 0, 1, 2, 2, 3])
    seq = st.lists(code, min_size=1, max_size=7)
    agents = draw(st.integers(1, 3)) if multi else None
    if multi:
        # agents of one environment usually end together; sometimes each on its own
        together = draw(st.booleans())
        if together:
            per_env = [draw(seq) for _ in range(rows)]
            script = [[list(per_env[e]) for e in range(rows)] for _ in range(agents)]
        else:
            script = [[draw(seq) for _ in range(rows)] for _ in range(agents)]
    else:
        script = [draw(seq) for _ in range(rows)]
    learn_step = draw(st.integers(1, 8))
    gens = draw(st.integers(1, 2))
    per_gen = draw(st.integers(1, 2))
    evo_steps = learn_step * per_gen if learn_step >= rows else rows * per_gen
    case = {"algo": algo, "E": E, "script": script, "learn_step": learn_step, "evo_steps": evo_steps, "max_steps": evo_steps * gens,
            "act": draw(st.sampled_from(["discrete", "box"])), "seed": draw(st.integers(0, 999))}
    if multi:
        case["agents"] = agents
    return case


def ppo_loop_strategy(tier):
    return loop_strategy(tier, "PPO")


def ippo_loop_strategy(tier):
    return loop_strategy(tier, "IPPO")
