"""C15 - observation handling is value-correct and batch-, agent- and env-consistent.

Three obligations:

* ``prep_reference`` (function level): generated space x value form x batch form x normalize_images; the real
  ``preprocess_observation`` against an independent numpy reference written from the statement, the row-wise law
  ``prep(batch)[i] == prep(batch[i])[0]`` and ``get_vect_dim``.
* ``agent_batch_invariance``: single-agent learners, exploration off: the greedy action / value estimate of row i does
  not change when other rows are added, removed or permuted, or when the row is passed alone (batch of one, unbatched).
* ``multi_agent_invariance``: IPPO (policies shared by homogeneous agents) and MADDPG / MATD3 (centralised critics): the
  per-(agent, env) outputs do not depend on the other agents' observations, on the other environments in the call, on
  the order of environments or on the order in which the agents appear in the observation dict.
"""
from __future__ import annotations

import numpy as np
import torch
from gymnasium import spaces
from hypothesis import strategies as st

from vp.core import engine
from vp.core.engine import HarnessError, Obligation, Property, Violation, _AbortCase, site_of
from vp.gen import agents as ag
from vp.gen import spaces as sp

NP_DTYPES = {"float32": np.float32, "float64": np.float64, "uint8": np.uint8, "int64": np.int64, "int8": np.int8}
TORCH_DTYPES = {"float32": torch.float32, "float64": torch.float64, "uint8": torch.uint8, "int64": torch.int64,
                "int8": torch.int8}
FORMS = ["unbatched", "batch1", "batch", "step_env"]


# ---------------------------------------------------------------------------------------------------------------
# spaces from JSON
# ---------------------------------------------------------------------------------------------------------------

def make_space(d):
    k = d["k"]
    if k == "box":
        shape = tuple(d["shape"])
        dt = NP_DTYPES[d["dtype"]]
        rng = np.random.default_rng(d.get("bseed", 0))
        b = d["bounds"]
        if b == "unit":
            lo, hi = np.zeros(shape), np.ones(shape)
        elif b == "byte":
            lo, hi = np.zeros(shape), np.full(shape, 255.0)
        elif b == "sym":
            lo, hi = np.full(shape, -1.0), np.ones(shape)
        elif b == "asym":
            lo, hi = np.full(shape, -2.0), np.full(shape, 5.0)
        elif b == "perelem":
            lo = np.rint(rng.uniform(-4, 4, size=shape))
            hi = lo + np.rint(rng.uniform(1, 6, size=shape))
            if dt == np.uint8:
                lo = np.abs(lo)
                hi = lo + np.rint(rng.uniform(1, 200, size=shape))
        elif b == "inf_hi":
            lo, hi = np.full(shape, -1.0), np.full(shape, np.inf)
        elif b == "inf_lo":
            lo, hi = np.full(shape, -np.inf), np.full(shape, 2.0)
        elif b == "inf_both":
            lo, hi = np.full(shape, -np.inf), np.full(shape, np.inf)
        elif b == "inf_some":  # some elements unbounded above, the others within [-1, 3]
            lo, hi = np.full(shape, -1.0), np.full(shape, 3.0)
            m = rng.integers(0, 2, size=shape).astype(bool)
            if m.size:
                m.reshape(-1)[0] = True
            hi = np.where(m, np.inf, hi)
        else:
            raise HarnessError(f"bounds {b}")
        return spaces.Box(low=np.asarray(lo, dtype=dt), high=np.asarray(hi, dtype=dt), shape=shape, dtype=dt)
    if k == "discrete":
        return spaces.Discrete(d["n"])
    if k == "multidiscrete":
        return spaces.MultiDiscrete(list(d["nvec"]))
    if k == "multibinary":
        return spaces.MultiBinary(d["n"])
    if k == "dict":
        return spaces.Dict({name: make_space(m) for name, m in d["members"]})
    if k == "tuple":
        return spaces.Tuple(tuple(make_space(m) for m in d["members"]))
    raise HarnessError(f"space kind {k}")


def leaf_kind(d):
    k = d["k"]
    if k == "box":
        r = len(d["shape"])
        return "image" if r == 3 else f"box{r}"
    if k == "discrete":
        return "discrete1" if d["n"] == 1 else "discrete"
    return k


def members(d):
    """[(key, member json)] of a composite, or [(None, d)] for a leaf"""
    if d["k"] == "dict":
        return [(name, m) for name, m in d["members"]]
    if d["k"] == "tuple":
        return list(enumerate(d["members"]))
    return [(None, d)]


# ---------------------------------------------------------------------------------------------------------------
# values: numpy master with explicit leading dims, converted to the requested value form
# ---------------------------------------------------------------------------------------------------------------

def master_leaf(space, lead, rng):
    """numpy array of shape (*lead, *space.shape) with valid values, bounds hit on purpose"""
    if isinstance(space, spaces.Discrete):
        return rng.integers(0, space.n, size=lead).astype(np.int64)
    if isinstance(space, spaces.MultiDiscrete):
        cols = [rng.integers(0, k, size=lead) for k in space.nvec]
        return np.stack(cols, axis=-1).astype(np.int64)
    if isinstance(space, spaces.MultiBinary):
        return rng.integers(0, 2, size=(*lead, space.n)).astype(np.int8)
    lo = np.where(np.isfinite(space.low), space.low, -3.0).astype(np.float64)
    hi = np.where(np.isfinite(space.high), space.high, 3.0).astype(np.float64)
    full = (*lead, *space.shape)
    u = rng.uniform(0, 1, size=full)
    edge = rng.integers(0, 6, size=full)
    u = np.where(edge == 0, 0.0, np.where(edge == 1, 1.0, u))
    x = u * (hi - lo) + lo
    if np.issubdtype(space.dtype, np.integer):
        x = np.clip(np.rint(x), lo, hi)
    return x.astype(space.dtype)


def master(space, lead, rng):
    if isinstance(space, spaces.Dict):
        return {k: master_leaf(s, lead, rng) for k, s in space.spaces.items()}
    if isinstance(space, spaces.Tuple):
        return tuple(master_leaf(s, lead, rng) for s in space.spaces)
    return master_leaf(space, lead, rng)


def index_master(m, idx):
    if isinstance(m, dict):
        return {k: v[idx] for k, v in m.items()}
    if isinstance(m, tuple):
        return tuple(v[idx] for v in m)
    return m[idx]


def _leaf_value(arr, vform):
    """arr: numpy array (possibly 0-d) or numpy scalar"""
    arr = np.asarray(arr)
    if vform == "tensor":
        return torch.from_numpy(np.ascontiguousarray(arr).copy()) if arr.ndim else torch.tensor(arr.item(), dtype=TORCH_DTYPES[str(arr.dtype)])
    if vform == "number" and arr.ndim == 0:
        return arr.item()  # Python int / float
    if vform == "npscalar" and arr.ndim == 0:
        return arr[()]  # numpy scalar (what Discrete.sample() / a non-vectorised env returns)
    return arr.copy()


def to_form(m, vform, lead, rng):
    """Convert the numpy master to the requested value form."""
    from tensordict import TensorDict

    if isinstance(m, dict):
        if vform == "tensordict":
            return TensorDict({k: _leaf_value(v, "tensor") for k, v in m.items()}, batch_size=list(lead))
        keys = list(m)
        if vform == "numpy_shuffled":  # same members, other key order than the space
            keys = keys[::-1]
            vform = "numpy"
        return {k: _leaf_value(m[k], vform) for k in keys}
    if isinstance(m, tuple):
        if vform == "tensordict":  # the form replay buffers store tuple observations in
            return TensorDict({f"tuple_obs_{i}": _leaf_value(v, "tensor") for i, v in enumerate(m)}, batch_size=list(lead))
        return tuple(_leaf_value(v, "numpy" if vform == "numpy_shuffled" else vform) for v in m)
    return _leaf_value(m, "numpy" if vform in ("tensordict", "numpy_shuffled") else vform)


# ---------------------------------------------------------------------------------------------------------------
# the reference, written from the statement
# ---------------------------------------------------------------------------------------------------------------

def ref_leaf(space, arr, normalize):
    """arr: numpy (*lead, *space.shape) -> list of acceptable float64 arrays of shape (N, *input_shape).
    More than one array is returned only where the statement leaves the result open (image normalisation with
    unbounded limits: 'min-max scaled with the space's bounds' has no meaning there)."""
    arr = np.asarray(arr)
    if isinstance(space, spaces.Discrete):
        flat = arr.reshape(-1)
        out = np.zeros((flat.shape[0], int(space.n)))
        out[np.arange(flat.shape[0]), flat] = 1.0
        return [out]
    if isinstance(space, spaces.MultiDiscrete):
        k = len(space.nvec)
        flat = arr.reshape(-1, k)
        parts = []
        for j, n in enumerate(space.nvec):
            o = np.zeros((flat.shape[0], int(n)))
            o[np.arange(flat.shape[0]), flat[:, j]] = 1.0
            parts.append(o)
        return [np.concatenate(parts, axis=1)]
    if isinstance(space, spaces.MultiBinary):
        return [arr.reshape(-1, space.n).astype(np.float64)]
    x = arr.reshape(-1, *space.shape).astype(np.float32).astype(np.float64)  # "a float tensor": float32 rounding of the input
    if len(space.shape) == 3 and normalize:
        lo = space.low.astype(np.float32).astype(np.float64)
        hi = space.high.astype(np.float32).astype(np.float64)
        fin = np.isfinite(lo) & np.isfinite(hi)
        if fin.all():
            return [(x - lo) / (hi - lo)]
        partial = np.where(fin, (x - np.where(fin, lo, 0.0)) / np.where(fin, hi - lo, 1.0), x)
        return [x, partial]
    return [x]


def input_shape(space):
    if isinstance(space, spaces.Discrete):
        return (int(space.n),)
    if isinstance(space, spaces.MultiDiscrete):
        return (int(sum(space.nvec)),)
    if isinstance(space, spaces.MultiBinary):
        return (int(space.n),)
    return tuple(space.shape)


def _guard(ctx, sig, fn, **details):
    """Run an AgileRL call the statement promises to succeed; (ok, result). An exception is a violation of class
    ``sig`` (the case goes on when that class is already known)."""
    try:
        return True, fn()
    except (Violation, _AbortCase, HarnessError, KeyboardInterrupt):
        raise
    except Exception as e:  # noqa: BLE001 - the statement promises these calls on this domain
        ctx.fail(sig, f"{type(e).__name__}: {str(e)[:200]}", site=site_of(e), **details)
        return False, None


def compare_leaf(ctx, base, got, space, arr, normalize, details):
    """got: what preprocess_observation returned for this leaf"""
    if not isinstance(got, torch.Tensor) or not got.is_floating_point():
        ctx.fail(base + "/not_a_float_tensor", f"result is {type(got).__name__} {getattr(got, 'dtype', '')}", **details)
        return False
    wants = ref_leaf(space, arr, normalize)
    want_shape = tuple(wants[0].shape)
    if tuple(got.shape) != want_shape:
        ctx.fail(base + "/shape", f"result has shape {tuple(got.shape)}, expected (batch, *input_shape) = {want_shape}",
                 got_shape=list(got.shape), want_shape=list(want_shape), **details)
        return False
    g = got.detach().cpu().double().numpy()
    exact = not (isinstance(space, spaces.Box) and len(space.shape) == 3 and normalize)
    ok = False
    for w in wants:
        if (np.array_equal(g, w) if exact else np.allclose(g, w, rtol=1e-5, atol=1e-6)):
            ok = True
            break
    if not ok:
        w = wants[0]
        bad = np.argwhere(~np.isclose(g, w, rtol=1e-5, atol=1e-6))
        first = tuple(int(i) for i in bad[0]) if len(bad) else None
        ctx.fail(base + "/value", "result differs from the reference preprocessing (one-hot / min-max with the space's bounds / float cast)",
                 first_bad_index=first, got=float(g[first]) if first is not None else None,
                 want=float(w[first]) if first is not None else None, **details)
        return False
    return True


def _get_member(result, key, composite_kind):
    if composite_kind == "dict":
        return result.get(key) if isinstance(result, dict) else None
    if composite_kind == "tuple":
        return result[key] if isinstance(result, tuple) and key < len(result) else None
    return result


def run_prep(case, ctx):
    from agilerl.utils.algo_utils import get_vect_dim, preprocess_observation

    sd = case["space"]
    space = make_space(sd)
    form, vform, norm = case["form"], case["value"], bool(case["norm"])
    rng = np.random.default_rng(case["seed"])
    lead = {"unbatched": (), "batch1": (1,), "batch": (case["B"],), "step_env": (case["T"], case["E"])}[form]
    if vform in ("number", "npscalar") and form != "unbatched":
        vform = "numpy"
    m = master(space, lead, rng)
    comp = sd["k"] if sd["k"] in ("dict", "tuple") else "leaf"
    mem = members(sd)
    details = {"space": sd, "form": form, "value_form": vform, "normalize_images": norm, "lead": list(lead)}

    def sub(key):
        return space if comp == "leaf" else space[key]

    def marr(key):
        return m if comp == "leaf" else m[key]

    def blame(value_master, vf, ld):
        """which member makes the call raise when handled on its own?  (for a precise signature)"""
        for key, md in mem:
            s = sub(key)
            v = value_master if comp == "leaf" else value_master[key]
            try:
                preprocess_observation(to_form(v, "numpy" if vf in ("tensordict", "numpy_shuffled") else vf, ld, rng), s,
                                       normalize_images=norm)
            except Exception:  # noqa: BLE001
                return leaf_kind(md)
        return comp

    # ---- clause 1: value-correct float tensors (batch, *input_shape) ------------------------------------------------
    obs = to_form(m, vform, lead, rng)
    try:
        res = preprocess_observation(obs, space, normalize_images=norm)
        ok = True
    except Exception as e:  # noqa: BLE001 - every form generated here is in the statement's quantifier
        ok, res = False, None
        ctx.fail(f"C15/prep/{blame(m, vform, lead)}/{form}/raises", f"{type(e).__name__}: {str(e)[:200]}",
                 site=site_of(e), **details)
    all_ok = ok
    if ok:
        if comp == "dict" and not isinstance(res, dict) or comp == "tuple" and not isinstance(res, tuple):
            ctx.fail(f"C15/prep/{comp}/{form}/container", f"result is {type(res).__name__}", **details)
            all_ok = False
        else:
            if comp == "dict":
                ctx.check(set(res.keys()) == {k for k, _ in mem}, f"C15/prep/dict/{form}/container",
                          "result keys differ from the observation's members", got=sorted(map(str, res.keys())), **details)
            if comp == "tuple":
                ctx.check(len(res) == len(mem), f"C15/prep/tuple/{form}/container", "result length differs", **details)
            for key, md in mem:
                got = _get_member(res, key, comp)
                if got is None:
                    all_ok = False
                    continue
                all_ok &= compare_leaf(ctx, f"C15/prep/{leaf_kind(md)}/{form}", got, sub(key), marr(key), norm,
                                       dict(details, member=key))

    # ---- clause 2: row-wise law -------------------------------------------------------------------------------
    if ok and form != "unbatched":
        n = int(np.prod(lead))
        rows = sorted(set([0, n - 1] + [int(r) for r in rng.integers(0, n, size=2)]))
        for r in rows:
            idx = np.unravel_index(r, lead)
            row_m = index_master(m, idx)
            row_v = to_form(row_m, vform, (), rng)
            try:
                single = preprocess_observation(row_v, space, normalize_images=norm)
            except Exception as e:  # noqa: BLE001
                ctx.fail(f"C15/prep/{blame(row_m, vform, ())}/unbatched/raises", f"{type(e).__name__}: {str(e)[:200]}",
                         site=site_of(e), **details)
                all_ok = False
                continue
            for key, md in mem:
                a, b = _get_member(res, key, comp), _get_member(single, key, comp)
                if not isinstance(a, torch.Tensor) or not isinstance(b, torch.Tensor):
                    continue
                same = (a.shape[0] > r and b.shape[0] == 1 and a[r].shape == b[0].shape
                        and torch.allclose(a[r], b[0], rtol=1e-6, atol=1e-7, equal_nan=True))
                if not same:
                    ctx.fail(f"C15/prep/{leaf_kind(md)}/{form}/rowwise",
                             "prep(batch)[i] differs from prep(batch[i])[0]", row=r, member=key,
                             batch_shape=list(a.shape), single_shape=list(b.shape), **details)
                    all_ok = False

    # ---- clause 3: a vectorised observation is recognised as such -------------------------------------------------
    if form in ("unbatched", "batch1", "batch") and vform in ("numpy", "npscalar", "numpy_shuffled"):
        want = 1 if form == "unbatched" else lead[0]
        # Dict: the observation's first member decides (gymnasium sorts a Dict space's keys; the dict given may not be)
        first_md = dict((str(k), md) for k, md in mem)[str(next(iter(obs)))] if comp == "dict" else mem[0][1]
        okv, got = _guard(ctx, f"C15/get_vect_dim/{leaf_kind(first_md)}/raises", lambda: get_vect_dim(obs, space), **details)
        if okv:
            ctx.check(int(got) == want, f"C15/get_vect_dim/{leaf_kind(first_md)}/{form}/wrong",
                      f"get_vect_dim returned {got}, the observation holds {want} environment(s)", got=int(got), want=want, **details)
        ctx.label("vect_dim-checked")

    # ---- bookkeeping ----------------------------------------------------------------------------------------------
    kinds = sorted({leaf_kind(md) for _, md in mem})
    for kd in kinds:
        ctx.label(f"{kd}|{form}")
    ctx.label(f"space={comp if comp != 'leaf' else kinds[0]}")
    ctx.label(f"value={vform}")
    ctx.label(f"form={form}")
    ctx.label(f"normalize={norm}")
    for _, md in mem:
        if md["k"] == "box":
            ctx.label(f"box-dtype={md['dtype']}")
            ctx.label(f"box-bounds={md['bounds']}")
    special = {"discrete1", "box0", "box4"} & set(kinds)
    if form != "batch" or special or comp != "leaf":
        ctx.nontrivial({"s": sd, "f": form, "v": vform, "n": norm,
                        "l": [1 if x == 1 else 2 for x in lead]})


# ---------------------------------------------------------------------------------------------------------------
# agent level
# ---------------------------------------------------------------------------------------------------------------

SINGLE = ["DQN", "DDQN", "CQN", "Rainbow", "DDPG", "TD3", "PPO"]
MULTI = ["IPPO", "MADDPG", "MATD3"]
ATOL = 2e-5  # float32 networks; rows of one batch go through the same kernels but batch size may change the reduction order


def slice_obs(obs, idx):
    """rows idx (list) of a batched observation (array / dict / tuple)"""
    if isinstance(obs, dict):
        return {k: v[idx] for k, v in obs.items()}
    if isinstance(obs, tuple):
        return tuple(v[idx] for v in obs)
    return obs[idx]


def cat_obs(a, b):
    if isinstance(a, dict):
        return {k: np.concatenate([a[k], b[k]], axis=0) for k in a}
    if isinstance(a, tuple):
        return tuple(np.concatenate([x, y], axis=0) for x, y in zip(a, b))
    return np.concatenate([a, b], axis=0)


def perturb_weights(nets, seed, scale):
    """untrained small networks are nearly constant functions of the observation; make them discriminate"""
    g = torch.Generator().manual_seed(seed)
    with torch.no_grad():
        for net in nets:
            for p in net.parameters():
                if p.is_floating_point():
                    p.add_(torch.randn(p.shape, generator=g) * scale)


class _NotPerRow(Exception):
    pass


def _rows(x, n):
    """(n, -1) view of an output that must have one entry per observation row"""
    x = np.asarray(x, dtype=np.float64)
    if x.size % n != 0 or (x.ndim >= 1 and n > 1 and x.shape[0] != n):
        raise _NotPerRow(f"output of shape {x.shape} for {n} observation rows")
    return x.reshape(n, -1)


import contextlib


@contextlib.contextmanager
def _harness_eval(*nets):
    """The harness' OWN forward passes (quantities the API does not report, e.g. Q-values) are taken in eval mode, so that
    BatchNorm encoders use their running statistics; what the agent's get_action does with the mode is the library's business
    and is judged through the values get_action returns."""
    mods = [m for m in nets if m is not None]
    was = [m.training for m in mods]
    for m in mods:
        m.eval()
    try:
        yield
    finally:
        for m, w in zip(mods, was):
            m.train(w)


def _outputs_single(agent, algo, obs, n):
    """deterministic per-row quantities {name: float64 array (n, -1)} with exploration off"""
    out = {}
    with torch.no_grad():
        if algo in ("DQN", "DDQN", "CQN"):
            a = agent.get_action(obs, epsilon=0.0)
            with _harness_eval(agent.actor):
                q = agent.actor(agent.preprocess_observation(obs))
            out["greedy_action"] = _rows(a, n)
            out["q_values"] = _rows(q.double().numpy(), n)
        elif algo == "Rainbow":
            a = agent.get_action(obs, training=False)
            with _harness_eval(agent.actor):
                q = agent.actor(agent.preprocess_observation(obs))
            out["greedy_action"] = _rows(a, n)
            out["q_values"] = _rows(q.double().numpy(), n)
        elif algo in ("DDPG", "TD3"):
            a = agent.get_action(obs, training=False)
            critic = agent.critic if algo == "DDPG" else agent.critic_1
            out["action"] = _rows(a, n)
            with _harness_eval(critic):
                qv = critic(agent.preprocess_observation(obs), torch.as_tensor(out["action"], dtype=torch.float32))
            out["q_value"] = _rows(qv.double().numpy(), n)
        elif algo == "PPO":
            _, _, ent, v = agent.get_action(obs)
            out["value"] = _rows(v, n)
            ent = np.asarray(ent, dtype=np.float64)
            if ent.size == n:
                out["entropy"] = ent.reshape(n, -1)
        else:
            raise HarnessError(algo)
    return out


def _rows_equal(ctx, sig, name, got, want, details):
    """got/want: (rows, k) float64.  The signature names the relation that broke; the quantity is a detail (one routing
    mistake moves actions, values and entropies alike)."""
    if got.shape != want.shape:
        ctx.fail(sig, f"{name}: shape {got.shape} vs {want.shape}", quantity=name, **details)
        return False
    if not np.allclose(got, want, rtol=1e-5, atol=ATOL, equal_nan=True):
        bad = int(np.argwhere(~np.isclose(got, want, rtol=1e-5, atol=ATOL, equal_nan=True))[0][0])
        ctx.fail(sig, f"{name} of a row depends on what else shares the call", quantity=name,
                 bad_row=bad, got=got[bad].tolist()[:6], want=want[bad].tolist()[:6], **details)
        return False
    return True


def _compare(ctx, sig_base, got, want, details):
    """compare two {name: (rows,k)} dicts"""
    ok = True
    qg, qw = got.get("q_values"), want.get("q_values")
    for name in want:
        if name == "greedy_action":
            g, w = got[name], want[name]
            if g.shape != w.shape:
                ctx.fail(sig_base, f"{name}: shape {g.shape} vs {w.shape}", quantity=name, **details)
                ok = False
                continue
            for r in np.argwhere((g != w).any(axis=1)).reshape(-1):
                # a different arg-max is a disagreement only if the q-values are not (numerically) tied
                if qw is not None and qw.shape[1] > 1:
                    top = np.sort(qw[r])[::-1]
                    if top[0] - top[1] <= 1e-4:
                        ctx.label("argmax-tie")
                        continue
                ctx.fail(sig_base, "greedy action of a row depends on what else shares the call", quantity=name,
                         bad_row=int(r), got=g[r].tolist(), want=w[r].tolist(), **details)
                ok = False
                break
        else:
            ok &= _rows_equal(ctx, sig_base, name, got[name], want[name], details)
    return ok


def _site_signature(e, algo, fam, fallback):
    """An exception raised inside the shared preprocessing helpers is the function-level defect, whoever calls them."""
    s = site_of(e)
    if s == "algo_utils.py:get_vect_dim":
        return f"C15/get_vect_dim/{fam}/raises"
    return fallback


FAM_KIND = {"vector": "box1", "image": "image", "dict": "dict", "tuple": "tuple", "discrete": "discrete",
            "multidiscrete": "multidiscrete", "multibinary": "multibinary", "sequence": "box2"}


def run_agent(case, ctx):
    spec = case["spec"]
    algo = spec["algo"]
    B = case["B"]
    try:
        agent = ag.build(spec)
        obs_space, _ = ag.spaces_for(spec)
        nets = [agent.actor] + [getattr(agent, n) for n in ("critic", "critic_1") if hasattr(agent, n)]
        perturb_weights(nets, case["wseed"], case["wscale"])
        if hasattr(agent, "set_training_mode"):
            agent.set_training_mode(False)
    except Exception as e:  # noqa: BLE001 - constructing the learner is not what C15 promises
        ctx.label(f"setup-failed:{type(e).__name__}")
        return
    rng = np.random.default_rng(case["oseed"])
    batch = sp.sample_obs(obs_space, B, rng)
    extra = sp.sample_obs(obs_space, case["extra"], rng) if case["extra"] else None
    base = f"C15/agent/{algo}"
    details = {"spec": spec, "B": B}
    fam = FAM_KIND[spec.get("obs", "vector")]

    def f(obs, n, what):
        try:
            ag.seed_all(case["oseed"])
            return _outputs_single(agent, algo, obs, n)
        except (Violation, _AbortCase, HarnessError, KeyboardInterrupt):
            raise
        except _NotPerRow as e:
            ctx.fail(f"{base}/{what}/not_one_output_per_row", str(e), **details)
            return None
        except Exception as e:  # noqa: BLE001 - "an agent reports ..." for every batch composition
            ctx.fail(_site_signature(e, algo, fam, f"{base}/{what}/raises"), f"{type(e).__name__}: {str(e)[:200]}",
                     site=site_of(e), **details)
            return None

    ref = f(batch, B, "batch")
    ctx.label(f"algo={algo}")
    ctx.label(f"obs={spec.get('obs')}")
    if ref is None:
        return
    # the row alone: as a batch of one and unbatched
    for i in sorted(set([0, B - 1, case["row"] % B])):
        one = f(slice_obs(batch, [i]), 1, "batch_of_one")
        if one is not None:
            _compare(ctx, f"{base}/batch_of_one_vs_batch", one, {k: v[[i]] for k, v in ref.items()}, dict(details, row=i))
        un = f(slice_obs(batch, i), 1, "unbatched")
        if un is not None:
            _compare(ctx, f"{base}/unbatched_vs_batch", un, {k: v[[i]] for k, v in ref.items()}, dict(details, row=i))
    # permutation of the rows
    perm = list(np.random.default_rng(case["pseed"]).permutation(B))
    p = f(slice_obs(batch, perm), B, "permuted")
    if p is not None:
        _compare(ctx, f"{base}/permuted_rows", p, {k: v[perm] for k, v in ref.items()}, dict(details, perm=[int(x) for x in perm]))
    # rows removed
    keep = [i for i in range(B) if (case["keep"] >> i) & 1] or [B - 1]
    s = f(slice_obs(batch, keep), len(keep), "sub_batch")
    if s is not None:
        _compare(ctx, f"{base}/rows_removed", s, {k: v[keep] for k, v in ref.items()}, dict(details, keep=keep))
    # rows added
    if extra is not None:
        big = f(cat_obs(batch, extra), B + case["extra"], "extended")
        if big is not None:
            _compare(ctx, f"{base}/rows_added", {k: v[:B] for k, v in big.items()}, ref, dict(details, extra=case["extra"]))
    allout = np.concatenate([v for v in ref.values()], axis=1)
    distinct_rows = len({tuple(np.round(r, 6)) for r in allout})
    if B >= 2 and distinct_rows >= 2:
        ctx.nontrivial({"a": algo, "o": spec.get("obs"), "ov": spec.get("obsv"), "B": B, "k": case["keep"], "x": case["extra"]})


# ---------------------------------------------------------------------------------------------------------------
# multi-agent
# ---------------------------------------------------------------------------------------------------------------

def _ma_obs(obs_l, ids, E, rng):
    """E=None -> non-vectorised (unbatched per agent)"""
    return {a: sp.sample_obs(s, E, rng) for a, s in zip(ids, obs_l)}


def _ma_slice(obs, envs):
    return {a: slice_obs(o, envs) for a, o in obs.items()}


_as_rows = _rows


def _ippo_outputs(agent, obs, ids, n):
    """{(quantity, agent): (n, -1)} deterministic parts of IPPO.get_action: value estimates and entropies"""
    ag.seed_all(0)
    _, _, ent, val = agent.get_action(obs)
    out = {}
    for a in ids:
        out[("value", a)] = _as_rows(val[a], n)
        if not isinstance(agent.action_space[a], spaces.Box):  # Box entropy is a constant of log_std: says nothing
            out[("entropy", a)] = _as_rows(ent[a], n)
    return out


def _maddpg_outputs(agent, obs, ids, n, act_for_q):
    """continuous actors (deterministic with training=False) and the centralised critics' values"""
    ag.seed_all(0)
    cont, _ = agent.get_action(obs, training=False)
    out = {("action", a): _as_rows(cont[a], n) for a in ids}
    with torch.no_grad():
        prep = agent.preprocess_observation(obs)
        stacked = agent.stack_critic_observations(prep)
        acts = torch.cat([torch.as_tensor(act_for_q[a], dtype=torch.float32).reshape(n, -1) for a in ids], dim=1)
        critics = agent.critics if hasattr(agent, "critics") else agent.critics_1
        for a, c in zip(ids, critics):
            with _harness_eval(c):
                out[("q_value", a)] = _rows(c(stacked, acts).double().numpy(), n)
    return out, prep, stacked


def _ref_stack(agent, prep, ids):
    """reference for stack_critic_observations: per environment row, the agents' prepared observations side by side in
    agent order (vectors concatenated; images stacked on a new agent axis after the channels)"""
    space = agent.single_space

    def one(sp_, tensors):
        if isinstance(sp_, spaces.Box) and len(sp_.shape) == 3:
            return torch.stack(tensors, dim=2)
        return torch.cat(tensors, dim=1)

    if isinstance(space, spaces.Dict):
        return {k: one(s, [prep[a][k] for a in ids]) for k, s in space.spaces.items()}
    if isinstance(space, spaces.Tuple):
        return tuple(one(s, [prep[a][i] for a in ids]) for i, s in enumerate(space.spaces))
    return one(space, [prep[a] for a in ids])


def _tree_equal(a, b):
    if isinstance(a, dict):
        return isinstance(b, dict) and set(a) == set(b) and all(_tree_equal(a[k], b[k]) for k in a)
    if isinstance(a, tuple):
        return isinstance(b, tuple) and len(a) == len(b) and all(_tree_equal(x, y) for x, y in zip(a, b))
    return isinstance(b, torch.Tensor) and a.shape == b.shape and torch.equal(a, b)


def run_multi(case, ctx):
    spec = case["spec"]
    algo = spec["algo"]
    E = case["E"]
    try:
        agent = ag.build(spec)
        obs_l, act_l = ag.spaces_for(spec)
        ids = ag.AGENT_IDS[: len(obs_l)]
        nets = list(agent.actors) + list(getattr(agent, "critics", [])) + list(getattr(agent, "critics_1", []))
        perturb_weights(nets, case["wseed"], case["wscale"])
        agent.set_training_mode(False)
    except Exception as e:  # noqa: BLE001
        ctx.label(f"setup-failed:{type(e).__name__}")
        return
    rng = np.random.default_rng(case["oseed"])
    obs = _ma_obs(obs_l, ids, E, rng)
    base = f"C15/ma/{algo}"
    details = {"spec": spec, "E": E}
    fam = FAM_KIND[spec.get("obs", "vector")]
    act_rng = np.random.default_rng(case["oseed"] + 1)
    q_acts = {}  # joint actions the centralised critics are evaluated at (MADDPG / MATD3 are run with Box actions here)
    if algo != "IPPO":
        q_acts = {a: np.stack([s.low + (s.high - s.low) * act_rng.uniform(0, 1, size=s.shape) for _ in range(E)]).astype(np.float32)
                  for a, s in zip(ids, act_l)}

    def f(o, n, what, qa=None):
        try:
            if algo == "IPPO":
                return _ippo_outputs(agent, o, ids, n)
            return _maddpg_outputs(agent, o, ids, n, qa if qa is not None else q_acts)[0]
        except (Violation, _AbortCase, HarnessError, KeyboardInterrupt):
            raise
        except _NotPerRow as e:
            ctx.fail(f"{base}/{what}/not_one_output_per_env", str(e), **details)
            return None
        except Exception as e:  # noqa: BLE001
            ctx.fail(_site_signature(e, algo, fam, f"{base}/{what}/raises"), f"{type(e).__name__}: {str(e)[:200]}",
                     site=site_of(e), **details)
            return None

    def cmp(sig, got, want, **d):
        for key in want:
            if key not in got:
                continue
            if not _rows_equal(ctx, f"{base}/{sig}", key[0], got[key], want[key], dict(details, agent=key[1], **d)):
                break

    ctx.label(f"algo={algo}")
    ctx.label(f"obs={spec.get('obs')}")
    ctx.label(f"act={spec.get('act')}")
    ref = f(obs, E, "vectorised")
    if ref is None:
        return

    # (0) centralised critic input holds, row by row, every agent's prepared observation side by side (any fixed agent order)
    if algo != "IPPO":
        import itertools

        okp, pair = _guard(ctx, f"{base}/stack_critic_observations/raises",
                           lambda: (lambda pr: (pr, agent.stack_critic_observations(pr)))(agent.preprocess_observation(obs)), **details)
        if okp:
            prep, stacked = pair
            ctx.check(any(_tree_equal(_ref_stack(agent, prep, order), stacked) for order in itertools.permutations(ids)),
                      f"{base}/stack_critic_observations/value",
                      "stacked critic observation is not, row by row, the agents' prepared observations side by side "
                      "(vectors concatenated, images on a new axis after the channels)", **details)

    # (1) one environment on its own: batch of one, and non-vectorised
    for e in sorted({0, E - 1}):
        one = f(_ma_slice(obs, [e]), 1, "one_env", {a: v[[e]] for a, v in q_acts.items()})
        if one is not None:
            cmp("one_env_vs_vectorised", one, {k: v[[e]] for k, v in ref.items()}, env=e)
        un = f(_ma_slice(obs, e), 1, "non_vectorised", {a: v[[e]] for a, v in q_acts.items()})
        if un is not None:
            cmp("non_vectorised_vs_vectorised", un, {k: v[[e]] for k, v in ref.items()}, env=e)

    # (2) environments permuted / removed
    perm = [int(x) for x in np.random.default_rng(case["pseed"]).permutation(E)]
    p = f(_ma_slice(obs, perm), E, "envs_permuted", {a: v[perm] for a, v in q_acts.items()})
    if p is not None:
        cmp("envs_permuted", p, {k: v[perm] for k, v in ref.items()}, perm=perm)
    keep = [i for i in range(E) if (case["keep"] >> i) & 1] or [E - 1]
    s = f(_ma_slice(obs, keep), len(keep), "envs_removed", {a: v[keep] for a, v in q_acts.items()})
    if s is not None:
        cmp("envs_removed", s, {k: v[keep] for k, v in ref.items()}, keep=keep)

    # (3) the other agents observe something else: an agent's own action / (IPPO) value must not move
    target = ids[case["target"] % len(ids)]
    other = _ma_obs(obs_l, ids, E, np.random.default_rng(case["oseed"] + 17))
    mixed = {a: (obs[a] if a == target else other[a]) for a in ids}
    mres = f(mixed, E, "other_agents_changed")
    if mres is not None:
        own = [k for k in ref if k[1] == target and k[0] != "q_value"]  # a centralised q-value legitimately sees everyone
        cmp("other_agents_changed", {k: mres[k] for k in own}, {k: ref[k] for k in own}, target=target)

    # (4) homogeneous agents swap observations: what the shared policy reports must swap with them
    if len(ids) >= 2 and algo == "IPPO":
        sw = dict(obs)
        sw[ids[0]], sw[ids[1]] = obs[ids[1]], obs[ids[0]]
        sres = f(sw, E, "homogeneous_swapped")
        if sres is not None:
            want = {}
            for (q, a), v in ref.items():
                b = ids[1] if a == ids[0] else ids[0] if a == ids[1] else a
                want[(q, b)] = v
            cmp("homogeneous_swapped", sres, want)

    # (5) the same observations with the agents listed in another order
    order = [ids[i] for i in np.random.default_rng(case["pseed"] + 3).permutation(len(ids))]
    if order != list(ids):
        ro = {a: obs[a] for a in order}
        rres = f(ro, E, "agent_key_order")
        if rres is not None:
            # MADDPG and MATD3 share MultiAgentRLAlgorithm.preprocess_observation, IPPO overrides it: one class each
            grp = "IPPO" if algo == "IPPO" else "MADDPG_MATD3"
            for key in ref:
                if not _rows_equal(ctx, f"C15/ma/agent_key_order/{grp}", key[0], rres[key], ref[key],
                                   dict(details, agent=key[1], order=order)):
                    break
        ctx.label("agent-order-permuted")

    if E >= 2:
        ctx.nontrivial({"a": algo, "o": spec.get("obs"), "ov": spec.get("obsv"), "act": spec.get("act"), "E": E,
                        "k": case["keep"], "t": case["target"] % len(ids)})


# ---------------------------------------------------------------------------------------------------------------
# strategies
# ---------------------------------------------------------------------------------------------------------------

@st.composite
def leaf_space(draw, allow_rank=(0, 1, 2, 3, 4)):
    k = draw(st.sampled_from(["box", "box", "box", "discrete", "discrete", "multidiscrete", "multibinary"]))
    if k == "box":
        rank = draw(st.sampled_from(allow_rank))
        if rank == 3:
            shape = [draw(st.integers(1, 3)), draw(st.integers(1, 4)), draw(st.integers(1, 4))]
        else:
            shape = [draw(st.integers(1, 3)) for _ in range(rank)]
        dtype = draw(st.sampled_from(["float32", "float32", "float64", "uint8", "int64"]))
        if dtype == "uint8":
            bounds = draw(st.sampled_from(["byte", "byte", "unit", "perelem"]))
        elif dtype == "int64":
            bounds = draw(st.sampled_from(["byte", "asym", "sym", "perelem"]))
        else:
            bounds = draw(st.sampled_from(["unit", "byte", "sym", "asym", "perelem", "inf_hi", "inf_lo", "inf_both", "inf_some"]))
        return {"k": "box", "shape": shape, "dtype": dtype, "bounds": bounds, "bseed": draw(st.integers(0, 99))}
    if k == "discrete":
        return {"k": "discrete", "n": draw(st.sampled_from([1, 1, 2, 3, 5, 7]))}
    if k == "multidiscrete":
        return {"k": "multidiscrete", "nvec": draw(st.lists(st.integers(1, 4), min_size=1, max_size=4))}
    return {"k": "multibinary", "n": draw(st.integers(1, 4))}


@st.composite
def space_strategy(draw):
    kind = draw(st.sampled_from(["leaf", "leaf", "leaf", "dict", "tuple"]))
    if kind == "leaf":
        return draw(leaf_space())
    n = draw(st.integers(1, 3))
    mem = [draw(leaf_space()) for _ in range(n)]
    if kind == "dict":
        names = draw(st.permutations(["vec", "img", "aux"]))[:n]
        return {"k": "dict", "members": [[nm, m] for nm, m in zip(names, mem)]}
    return {"k": "tuple", "members": mem}


@st.composite
def prep_strategy(draw, tier):
    space = draw(space_strategy())
    form = draw(st.sampled_from(FORMS))
    if space["k"] == "dict":
        vforms = ["numpy", "tensor", "tensordict", "number", "numpy_shuffled", "npscalar"]
    elif space["k"] == "tuple":
        vforms = ["numpy", "tensor", "tensordict", "number", "npscalar"]
    else:
        vforms = ["numpy", "tensor", "number", "npscalar"]
    return {"space": space, "form": form, "value": draw(st.sampled_from(vforms)), "norm": draw(st.integers(0, 1)),
            "B": draw(st.integers(2, 5)), "T": draw(st.integers(1, 4)), "E": draw(st.integers(1, 3)),
            "seed": draw(st.integers(0, 10 ** 6))}


@st.composite
def agent_strategy(draw, tier):
    algo = draw(st.sampled_from(engine.stratum(SINGLE)))
    fam = draw(st.sampled_from(["vector", "image", "dict", "tuple", "discrete", "multidiscrete", "multibinary", "sequence"]))
    spec = {"algo": algo, "obs": fam, "obsv": draw(st.integers(0, 2)), "actv": draw(st.integers(0, 2)),
            "seed": draw(st.integers(0, 999))}
    if algo in ("DDPG", "TD3"):
        spec["act"] = draw(st.sampled_from(["box", "box_asym", "box_perdim"]))
    if algo == "PPO":
        spec["act"] = draw(st.sampled_from(["discrete", "multidiscrete", "multibinary", "box"]))
        if spec["act"] == "box":
            spec["actv"] = draw(st.integers(1, 2))
    if fam in ("image", "dict", "tuple"):
        spec["bn"] = draw(st.booleans())  # BatchNorm in the image encoder (the library's default image config has it)
    B = draw(st.integers(2, 5))
    return {"spec": spec, "B": B, "row": draw(st.integers(0, 4)), "keep": draw(st.integers(1, 2 ** B - 1)),
            "extra": draw(st.integers(0, 3)), "pseed": draw(st.integers(0, 999)), "oseed": draw(st.integers(0, 9999)),
            "wseed": draw(st.integers(0, 999)), "wscale": draw(st.sampled_from([0.1, 0.3]))}


@st.composite
def multi_strategy(draw, tier):
    algo = draw(st.sampled_from(engine.stratum(MULTI)))
    if algo == "IPPO":
        fam = draw(st.sampled_from(IPPO_FAMS))
        act = draw(st.sampled_from(["discrete", "discrete", "multidiscrete", "box"]))
    else:
        fam = draw(st.sampled_from(MA_OFF_FAMS))
        act = "box"
    spec = {"algo": algo, "obs": fam, "obsv": draw(st.integers(0, 2)), "actv": draw(st.integers(0, 2)), "act": act,
            "seed": draw(st.integers(0, 999)), "n_agents": draw(st.sampled_from([2, 3, 3]))}
    if fam in ("image", "dict", "tuple"):
        spec["bn"] = draw(st.booleans())
    E = draw(st.integers(1, 4))
    return {"spec": spec, "E": E, "keep": draw(st.integers(1, 2 ** E - 1)), "target": draw(st.integers(0, 2)),
            "pseed": draw(st.integers(0, 999)), "oseed": draw(st.integers(0, 9999)),
            "wseed": draw(st.integers(0, 999)), "wscale": draw(st.sampled_from([0.1, 0.3]))}


def _env_seed():
    import os

    return int(os.environ.get("VERIF_SEED", "1") or "1")


def _draw_agent_case(algo, fam, rng):
    spec = {"algo": algo, "obs": fam, "obsv": int(rng.integers(0, 3)), "actv": int(rng.integers(0, 3)), "seed": int(rng.integers(0, 1000))}
    if algo in ("DDPG", "TD3"):
        spec["act"] = ["box", "box_asym", "box_perdim"][int(rng.integers(0, 3))]
    if algo == "PPO":
        spec["act"] = ["discrete", "multidiscrete", "multibinary", "box"][int(rng.integers(0, 4))]
        if spec["act"] == "box":
            spec["actv"] = int(rng.integers(1, 3))
    B = int(rng.integers(2, 6))
    return {"spec": spec, "B": B, "row": int(rng.integers(0, 5)), "keep": int(rng.integers(1, 2 ** B)),
            "extra": int(rng.integers(0, 4)), "pseed": int(rng.integers(0, 1000)), "oseed": int(rng.integers(0, 10000)),
            "wseed": int(rng.integers(0, 1000)), "wscale": [0.1, 0.3][int(rng.integers(0, 2))]}


SINGLE_FAMS = ["vector", "image", "dict", "tuple", "discrete", "multidiscrete", "multibinary", "sequence"]


def agent_grid(tier):
    """every (learner, observation family) cell, the rest of the case derived from VERIF_SEED"""
    reps = 1 if tier == "quick" else 6
    for rep in range(reps):
        for i, algo in enumerate(SINGLE):
            for j, fam in enumerate(SINGLE_FAMS):
                yield _draw_agent_case(algo, fam, np.random.default_rng([_env_seed(), rep, i, j]))


def _draw_multi_case(algo, fam, act, rng):
    spec = {"algo": algo, "obs": fam, "obsv": int(rng.integers(0, 3)), "actv": int(rng.integers(0, 3)), "act": act,
            "seed": int(rng.integers(0, 1000)), "n_agents": [2, 3, 3][int(rng.integers(0, 3))]}
    E = int(rng.integers(1, 5))
    return {"spec": spec, "E": E, "keep": int(rng.integers(1, 2 ** E)), "target": int(rng.integers(0, 3)),
            "pseed": int(rng.integers(0, 1000)), "oseed": int(rng.integers(0, 10000)),
            "wseed": int(rng.integers(0, 1000)), "wscale": [0.1, 0.3][int(rng.integers(0, 2))]}


IPPO_FAMS = ["vector", "image", "dict", "tuple", "discrete", "multidiscrete", "multibinary"]
MA_OFF_FAMS = ["vector", "image", "dict", "discrete", "multidiscrete"]  # Tuple: MADDPG/MATD3 cannot be constructed


def multi_grid(tier):
    reps = 1 if tier == "quick" else 6
    for rep in range(reps):
        for j, fam in enumerate(IPPO_FAMS):
            for k, act in enumerate(["discrete", "multidiscrete", "box"]):
                yield _draw_multi_case("IPPO", fam, act, np.random.default_rng([_env_seed(), rep, 0, j, k]))
        for i, algo in enumerate(["MADDPG", "MATD3"]):
            for j, fam in enumerate(MA_OFF_FAMS):
                yield _draw_multi_case(algo, fam, "box", np.random.default_rng([_env_seed(), rep, 1 + i, j]))


_KINDS = ["box0", "box1", "box2", "image", "box4", "discrete", "discrete1", "multidiscrete", "multibinary"]

PROPERTY = Property(
    id="C15",
    level="exploration",
    rule=("(a) function level: drawn space (Box rank 0-4 x dtype float32/float64/uint8/int64 x bounds unit/byte/symmetric/asymmetric/"
          "per-element/infinite; Discrete incl. n=1; MultiDiscrete; MultiBinary; one-level Dict/Tuple of 1-3 of those) x value form "
          "(numpy, tensor, TensorDict, Python number, numpy scalar, dict with another key order) x batch form (unbatched, batch of "
          "one, batch, (step, env)) x normalize_images, checked against a numpy reference written from the statement, the row-wise "
          "law and get_vect_dim; non-trivial = batch form other than the plain (B, *shape) one, or Discrete(1) / rank-0 / rank-4 / "
          "Dict / Tuple space; distinct by (space, batch form with singleton pattern, value form, normalisation). (b) single-agent "
          "learners with exploration off: outputs of row i under batch-of-one, unbatched, permuted, reduced and extended batches; "
          "(c) IPPO / MADDPG / MATD3: per-(agent, env) outputs under one-env, non-vectorised, permuted / removed envs, changed other "
          "agents, swapped homogeneous agents, permuted agent order; non-trivial = at least two distinct rows / environments; "
          "distinct by (algorithm, observation family and variant, batch composition)"),
    obligations=[
        Obligation("prep_reference", run_prep, strategy=prep_strategy,
                   examples={"quick": 2500, "thorough": 40000}, shards={"quick": 8, "thorough": 16},
                   shrink_budget={"quick": 300, "thorough": 1500}),
        Obligation("agent_batch_invariance", run_agent, strategy=agent_strategy, enumerate=agent_grid,
                   examples={"quick": 20, "thorough": 400}, shards={"quick": 6, "thorough": 16},
                   shrink_budget={"quick": 40, "thorough": 300}),
        Obligation("multi_agent_invariance", run_multi, strategy=multi_strategy, enumerate=multi_grid,
                   examples={"quick": 20, "thorough": 300}, shards={"quick": 6, "thorough": 16},
                   shrink_budget={"quick": 40, "thorough": 300}),
    ],
    assumptions=[
        "MultiBinary(n) and MultiDiscrete(nvec) are one-dimensional (n an int, nvec a vector), Discrete starts at 0",
        "Box bounds satisfy low < high element-wise; observation values are valid members of their space",
        "with any infinite bound an image is accepted un-normalised (the statement's min-max scaling is undefined there); "
        "float results are compared exactly except min-max scaled images (rtol 1e-5, atol 1e-6)",
        "get_vect_dim is given numpy observations (arrays, numpy scalars, dicts / tuples of arrays), as its signature says",
        "agent level: float32 networks, tolerance 2e-5 + 1e-5 relative; a different arg-max is accepted when the two best "
        "q-values are within 1e-4; network weights are perturbed so that outputs depend on the observation",
        "multi-agent calls always contain every agent of the learner (as the vector env delivers them)",
    ],
    wanted_labels=[f"{k}|{f}" for k in _KINDS for f in FORMS] + ["vect_dim-checked", "value=tensordict", "value=number",
                                                                "value=npscalar", "space=dict", "space=tuple"],
)
