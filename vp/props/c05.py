"""C05 - tournament selection keeps the fittest and builds a well-formed generation."""
from __future__ import annotations

import numpy as np
from hypothesis import strategies as st

from vp.core import engine
from vp.core.engine import Obligation, Property
from vp.gen import agents as ag
from vp.obs import tensors as T


class _RecordRandint:
    def __init__(self):
        self.draws = []
        self.orig = None

    def __enter__(self):
        self.orig = np.random.randint

        def rec(*a, **k):
            out = self.orig(*a, **k)
            self.draws.append(np.asarray(out).reshape(-1).tolist())
            return out

        np.random.randint = rec
        return self

    def __exit__(self, *exc):
        np.random.randint = self.orig


def _mean_last(agent, k):
    return float(np.mean(agent.fitness[-k:]))


def _shared(agent):
    out = set()
    for g in agent.registry.groups:
        if g.shared is not None:
            out.update(g.shared if isinstance(g.shared, list) else [g.shared])
    return out


def _skip_targets(agent):
    """flat names of target/shared networks (a copy may re-synchronise those with its own online network: C01's allowance)"""
    sh = _shared(agent)
    return {k for k in T.flat_networks(agent) if k.split("[")[0] in sh}


def _same_weights(a, b):
    sa, sb = T.snapshot(a), T.snapshot(b)
    return not T.diff(sa, sb, sections=("tensors", "arch"), skip_nets=_skip_targets(a))


def _faithful_diff(snap_parent, parent, child):
    sc = T.snapshot(child)
    d = T.diff(snap_parent, sc, skip_nets=_skip_targets(parent))
    d = [x for x in d if not x.startswith("values.fitness") and not x.startswith("values.scores") and not x.startswith("values.steps")]
    # targets: equal to the parent's or to the copy's own online network
    for g in child.registry.groups:
        if g.shared is None:
            continue
        for name in (g.shared if isinstance(g.shared, list) else [g.shared]):
            for k in sc["tensors"]:
                if k.split("[")[0] != name:
                    continue
                ek = g.eval + k[len(name):]
                same_parent = not T.tensors_equal(snap_parent["tensors"][k], sc["tensors"][k])
                same_online = ek in sc["tensors"] and not [x for x in T.tensors_equal(sc["tensors"][ek], sc["tensors"][k]) if "only in" not in x]
                if not (same_parent or same_online):
                    d.append(f"tensors.{k}: target equals neither the parent's target nor the copy's online network")
    return d


def run_select(case, ctx):
    from agilerl.hpo.tournament import TournamentSelection

    algo = case["algo"]
    n = len(case["fitness"])
    try:
        pop = []
        for i in range(n):
            a = ag.build({"algo": algo, "obs": "vector", "seed": 100 + i + case["seed"], "index": case["indices"][i]})
            a.fitness = [float(x) for x in case["fitness"][i]]
            a.scores = [float(i)]
            a.steps = [i, 2 * i]
            pop.append(a)
        if case["learn_first"]:
            for i, a in enumerate(pop):
                ag.seed_all(i)
                ag.learn_once(a, {"algo": algo, "obs": "vector"}, i)
    except Exception as e:
        ctx.label(f"setup-failed:{type(e).__name__}")
        return
    ts = TournamentSelection(case["tsize"], case["elitism"], case["popsize"], case["eval_loop"])
    nontrivial = False
    for gen in range(case["generations"]):
        before = [T.snapshot(a) for a in pop]
        lists_before = [(list(a.fitness), list(a.scores), list(a.steps), a.index) for a in pop]
        means = [_mean_last(a, case["eval_loop"]) for a in pop]
        best = max(means)
        np.random.seed(case["npseed"] + gen)
        with _RecordRandint() as rec:
            with ctx.promised("C05/select", algo=algo):
                elite, new_pop = ts.select(pop)
        # --- old population untouched ------------------------------------
        for i, a in enumerate(pop):
            d = T.diff(before[i], T.snapshot(a))
            if d:
                ctx.fail("C05/old_population_changed", f"select() changed a member of the old population: {d[0]}", member=i)
            ctx.check((list(a.fitness), list(a.scores), list(a.steps), a.index) == lists_before[i],
                      "C05/old_population_changed_lists", "select() changed fitness/scores/steps/index of an old member", member=i)
        # --- elite ---------------------------------------------------------
        elite_parents = [i for i, a in enumerate(pop) if _same_weights(a, elite) and list(a.fitness) == list(elite.fitness)]
        if not elite_parents:
            ctx.fail("C05/elite_not_a_copy", "elite is not a faithful copy of any member of the population")
        else:
            ctx.check(any(means[i] == best for i in elite_parents), "C05/elite_not_fittest",
                      "elite is not a copy of an agent with the highest mean of the last eval_loop scores",
                      means=means, elite_of=elite_parents, eval_loop=case["eval_loop"])
        ctx.check(not any(elite is a for a in pop), "C05/elite_is_not_a_copy_but_the_same_object", "")
        # --- size, elite first --------------------------------------------
        ctx.check(len(new_pop) == case["popsize"], "C05/wrong_population_size",
                  "new population does not have the configured size", got=len(new_pop), want=case["popsize"])
        children = list(new_pop)
        if case["elitism"] and children:
            first = children[0]
            ctx.check(_same_weights(first, elite) and list(first.fitness) == list(elite.fitness),
                      "C05/elite_not_first", "with elitism the first member of the new population is not the elite")
            ctx.check(first is not elite, "C05/elite_object_shared_with_population", "elite object itself was put into the population")
            children = children[1:]
        # --- every other member: parent among its tournament's best --------
        draws = rec.draws
        ctx.check(len(draws) == len(children), "C05/number_of_tournaments", "one tournament per non-elite member expected",
                  tournaments=len(draws), members=len(children))
        for j, child in enumerate(children):
            if j >= len(draws):
                break
            drawn = draws[j]
            ctx.check(len(drawn) == case["tsize"], "C05/tournament_size_not_respected", "", drawn=drawn, tsize=case["tsize"])
            top = max(means[i] for i in drawn)
            allowed = sorted({i for i in drawn if means[i] == top})
            parents = [i for i, a in enumerate(pop) if list(a.fitness) == list(child.fitness) and _same_weights(a, child)]
            if not parents:
                ctx.fail("C05/child_not_a_copy", "a member of the new population is not a faithful copy of any old member", child=j)
                continue
            ctx.check(any(p in allowed for p in parents), "C05/child_parent_not_tournament_best",
                      "member's parent is not a best-ranked agent among those drawn for its tournament",
                      child=j, parent=parents, drawn=drawn, means=means, allowed=allowed)
            p = [q for q in parents if q in allowed] or parents
            d = _faithful_diff(before[p[0]], pop[p[0]], child)
            if d:
                ctx.fail("C05/child_not_faithful", f"member differs from its parent: {d[0]}", child=j, parent=p[0], diffs=d[:4])
            ctx.check((list(child.scores), list(child.steps)) == (lists_before[p[0]][1], lists_before[p[0]][2]),
                      "C05/child_bookkeeping_differs", "scores/steps lists of the copy differ from the parent's", child=j)
            if len(set(drawn)) >= 2 and len({means[i] for i in drawn}) >= 2:
                nontrivial = True
        # --- indices -----------------------------------------------------------
        idx = [a.index for a in new_pop]
        ctx.check(len(set(idx)) == len(idx), "C05/duplicate_index", "two members of the new population share an index", indices=idx,
                  elitism=case["elitism"])
        old_max = max(lists_before[i][3] for i in range(len(pop)))
        fresh = idx[1:] if case["elitism"] else idx
        ctx.check(all(i > old_max for i in fresh), "C05/index_not_fresh", "a non-elite member reuses an old index", indices=idx, old_max=old_max)
        # --- copies, not aliases: training the new generation leaves the old one (and the siblings) untouched -----------
        if case.get("train_after") and new_pop:
            who = case["train_after"] % len(new_pop)
            trainee = new_pop[who]
            others = [(j, a, T.snapshot(a)) for j, a in enumerate(new_pop) if a is not trainee] + [("elite", elite, T.snapshot(elite))]
            try:
                ag.seed_all(gen)
                ag.learn_once(trainee, {"algo": algo, "obs": "vector"}, 50 + gen)
                trained = True
            except Exception as e:  # noqa: BLE001 - learning is not C05's promise
                ctx.label(f"learn-after-select-raised:{type(e).__name__}")
                trained = False
            if trained:
                ctx.label("trained-a-member-of-the-new-generation")
                for i, a in enumerate(pop):
                    if a is trainee:
                        continue
                    d = T.diff(before[i], T.snapshot(a))
                    if d:
                        ctx.fail("C05/old_population_changed_by_training_a_copy", "a learn step of a member of the new generation changed "
                                 f"a member of the old population (the copy shares state with it): {d[0]}", member=i, trainee=who, diffs=d[:4])
                for j, a, snap in others:
                    if a is trainee:
                        continue
                    d = T.diff(snap, T.snapshot(a))
                    if d:
                        ctx.fail("C05/sibling_changed_by_training_a_copy", "a learn step of one member of the new generation changed "
                                 f"another member / the returned elite: {d[0]}", member=j, trainee=who, diffs=d[:4])
        # next generation
        pop = new_pop
        rng = np.random.default_rng(case["npseed"] * 31 + gen)
        for a in pop:
            a.fitness.append(float(rng.integers(-3, 4)))
        if not pop:
            break
    ctx.label(f"algo={algo}")
    ctx.label("elitism" if case["elitism"] else "no-elitism")
    ctx.label("popsize!=len" if case["popsize"] != n else "popsize==len")
    if nontrivial:
        ctx.nontrivial({k: case[k] for k in ("fitness", "tsize", "eval_loop", "elitism", "popsize", "npseed", "generations")})


def run_helper(case, ctx):
    """tournament_selection_and_mutation (the wiring every training loop uses): with save_elite the agent written to disk is the elite
    select() returned - a copy of a fittest member of the old population - whatever the elitism flag and the mutation settings."""
    import os
    import shutil
    import tempfile

    from agilerl.hpo.tournament import TournamentSelection
    from agilerl.utils.utils import tournament_selection_and_mutation
    from vp.gen import histories as hist

    algo = case["algo"]
    n = len(case["fitness"])
    try:
        pop = []
        for i in range(n):
            a = ag.build({"algo": algo, "obs": "vector", "seed": 300 + i + case["seed"], "index": i})
            a.fitness = [float(x) for x in case["fitness"][i]]
            pop.append(a)
    except Exception as e:  # noqa: BLE001
        ctx.label(f"setup-failed:{type(e).__name__}")
        return
    means = [_mean_last(a, case["eval_loop"]) for a in pop]
    best = max(means)
    ts = TournamentSelection(case["tsize"], case["elitism"], n, case["eval_loop"])
    mut = hist.make_mutations(case["mut"], case["npseed"], mutate_elite=case["mutate_elite"])
    d = tempfile.mkdtemp(prefix="vpc05_")
    cwd = os.getcwd()
    os.chdir(d)
    try:
        np.random.seed(case["npseed"])
        with ctx.promised("C05/helper/call", algo=algo):
            new_pop = tournament_selection_and_mutation(pop, ts, mut, "env", algo=None, elite_path=os.path.join(d, "elite.pt"), save_elite=True)
        ctx.check(len(new_pop) == n, "C05/helper/wrong_population_size", "", got=len(new_pop), want=n)
        path = os.path.join(d, "elite.pt")
        if not ctx.check(os.path.exists(path), "C05/helper/elite_not_saved", "save_elite=True wrote no elite checkpoint"):
            return
        with ctx.promised("C05/helper/load_saved_elite", algo=algo):
            saved = type(pop[0]).load(path)
        parents = [i for i, a in enumerate(pop) if list(a.fitness) == list(saved.fitness) and _same_weights(a, saved)]
        if not parents:
            ctx.fail("C05/helper/saved_elite_is_not_a_copy_of_an_old_member", "the agent saved as elite is not a faithful copy of any member of "
                     "the population that was selected from (e.g. it was mutated, or it is not the elite select() returned)",
                     elitism=case["elitism"], mut=case["mut"], mutate_elite=case["mutate_elite"], saved_fitness=list(saved.fitness))
        else:
            ctx.check(any(means[i] == best for i in parents), "C05/helper/saved_elite_not_fittest",
                      "the agent saved as elite is not a copy of an agent with the highest mean of the last eval_loop scores",
                      means=means, saved_copy_of=parents, elitism=case["elitism"])
    finally:
        os.chdir(cwd)
        shutil.rmtree(d, ignore_errors=True)
    ctx.label("helper:elitism" if case["elitism"] else "helper:no-elitism")
    ctx.label(f"helper:mut={case['mut']}")
    if len(set(means)) >= 2:
        ctx.nontrivial({"h": 1, "f": case["fitness"], "e": case["elitism"], "m": case["mut"], "me": case["mutate_elite"], "s": case["npseed"]})


@st.composite
def helper_strategy(draw, tier):
    n = draw(st.integers(2, 5))
    fit = [draw(st.lists(st.integers(-3, 3), min_size=1, max_size=4)) for _ in range(n)]
    return {"algo": draw(st.sampled_from(engine.stratum(["DQN", "DDPG", "PPO", "DQN"]))), "fitness": fit, "tsize": draw(st.integers(1, n)),
            "eval_loop": draw(st.integers(1, 4)), "elitism": draw(st.booleans()), "npseed": draw(st.integers(0, 9999)),
            "seed": draw(st.integers(0, 50)), "mut": draw(st.sampled_from(["none", "param", "arch", "rl_hp"])),
            "mutate_elite": draw(st.booleans())}


@st.composite
def select_strategy(draw, tier):
    n = draw(st.integers(1, 6))
    fit = [draw(st.lists(st.integers(-3, 3), min_size=1, max_size=5)) for _ in range(n)]
    base = draw(st.integers(0, 20))
    indices = draw(st.permutations(list(range(base, base + n))))
    algo = draw(st.sampled_from(engine.stratum(["DQN", "DDPG", "PPO", "NeuralUCB", "MADDPG", "IPPO", "Rainbow", "TD3", "CQN", "MATD3", "DQN", "DQN"])))
    return {"algo": algo, "fitness": fit, "indices": list(indices), "tsize": draw(st.integers(1, n + 2)),
            "eval_loop": draw(st.integers(1, 5)), "elitism": draw(st.booleans()),
            "popsize": draw(st.one_of(st.just(n), st.integers(1, 7))), "npseed": draw(st.integers(0, 9999)),
            "seed": draw(st.integers(0, 50)), "generations": draw(st.integers(1, 3)), "learn_first": draw(st.booleans()),
            "train_after": draw(st.sampled_from([0, 0, 1, 2, 3, 5]))}


PROPERTY = Property(
    id="C05",
    level="exploration",
    rule=("populations of 1-6 agents with drawn fitness histories (ties, negatives, unequal lengths), tournament size 1..N+2, eval window 1-5, "
          "elitism flag, configured population size (may differ from len), numpy seed, 1-3 successive generations; numpy.random.randint is "
          "wrapped during select() to RECORD each tournament's draws; in 2 of 3 cases one member of each new generation takes a learn "
          "step afterwards and the old population, its siblings and the returned elite must not change (copies, not aliases); the "
          "algorithm is stratified over the shards (DQN, DDPG, PPO, NeuralUCB, MADDPG, IPPO, Rainbow, TD3, CQN, MATD3); non-trivial = some tournament drew >=2 distinct agents with distinct "
          "means; distinct by (fitness table, sizes, flags, seed)"),
    obligations=[
        Obligation("select", run_select, strategy=select_strategy,
                   examples={"quick": 20, "thorough": 150}, shards={"quick": 12, "thorough": 16},
                   shrink_budget={"quick": 80, "thorough": 400}),
        Obligation("helper_saves_elite", run_helper, strategy=helper_strategy,
                   examples={"quick": 12, "thorough": 150}, shards={"quick": 4, "thorough": 16},
                   shrink_budget={"quick": 40, "thorough": 200}),
    ],
    assumptions=["helper obligation: the saved elite is read back with Algo.load (C07 decides that a checkpoint restores the agent)",
                 "parents are identified by value (weights + fitness list); agents are built from distinct seeds so weights are distinct",
                 "uniformity of the draws themselves is numpy's and is not checked"],
    wanted_labels=["elitism", "no-elitism", "popsize!=len", "trained-a-member-of-the-new-generation"],
)
