"""Child-process body of C20's training-loop obligation: run one real training function on instrumented environments and
judge completion + step / generation / fitness / elitism accounting."""
from __future__ import annotations

import contextlib
import io
import os
import shutil
import tempfile

import numpy as np
import torch

from vp.gen import agents as ag
from vp.gen import histories as hist
from vp.gen import loopenvs as le
from vp.gen.pzoracle import Findings
from vp.obs import tensors as T

LOOP_ALGOS = {
    "off_policy": ["DQN", "DDQN", "Rainbow", "DDPG", "TD3"],
    "on_policy": ["PPO"],
    "offline": ["CQN"],
    "bandits": ["NeuralUCB", "NeuralTS"],
    "ma_off": ["MADDPG", "MATD3"],
    "ma_on": ["IPPO"],
}


_TOKENS = iter(range(1, 10**9))


def token(agent):
    """a per-object token that is never reused (id() is, once an agent is garbage collected); clones do not inherit it"""
    d = agent.__dict__
    if "_vp_token" not in d:
        d["_vp_token"] = next(_TOKENS)
    return d["_vp_token"]


@contextlib.contextmanager
def instrument(classes):
    """class-level wrappers (harness process only): who acted last, and whether we are inside an evaluation"""
    saved = []
    for cls in classes:
        orig_ga, orig_test = cls.get_action, cls.test

        def ga(self, *a, __o=orig_ga, **k):
            le.CURRENT["agent"] = token(self)
            return __o(self, *a, **k)

        def test(self, *a, __o=orig_test, **k):
            prev = le.CURRENT["phase"]
            le.CURRENT["phase"] = "eval"
            try:
                return __o(self, *a, **k)
            finally:
                le.CURRENT["phase"] = prev

        cls.get_action, cls.test = ga, test
        saved.append((cls, orig_ga, orig_test))
    try:
        yield
    finally:
        for cls, g, t in saved:
            cls.get_action, cls.test = g, t


def _policy_snapshot(agent):
    out = {}
    for k, n in T.flat_networks(agent).items():
        if k.split("[")[0] == agent.registry.policy:
            out[k] = T.clone_tensors(n)
    return out


def loop_child(case):
    F = Findings()
    torch.set_num_threads(1)
    loop, algo = case["loop"], case["algo"]
    site = f"C20/{loop}/{algo}"
    work = tempfile.mkdtemp(prefix="vpc20_")
    cwd = os.getcwd()
    os.chdir(work)  # the loops default their checkpoint paths to the working directory
    try:
        _run(case, F, site, work)
    finally:
        os.chdir(cwd)
        shutil.rmtree(work, ignore_errors=True)
    return F.out()


def _run(case, F, site, work):
    from agilerl.components.multi_agent_replay_buffer import MultiAgentReplayBuffer
    from agilerl.components.replay_buffer import MultiStepReplayBuffer, PrioritizedReplayBuffer, ReplayBuffer
    from agilerl.hpo.tournament import TournamentSelection

    loop, algo = case["loop"], case["algo"]
    P, E = case["pop"], case["envs"]
    spec = {"algo": algo, "obs": case["obs"], "obsv": case["obsv"], "actv": case["actv"], "seed": case["seed"], "act": case["act"],
            "hp": {"batch_size": case["batch_size"], "learn_step": case["learn_step"]}}
    if algo in ("DDPG", "TD3", "MADDPG", "MATD3"):
        spec["hp"]["vect_noise_dim"] = max(E, 1)
    ag.seed_all(case["seed"])
    try:
        shared = ag.make_hp_config(algo)
        pop = [ag.build(dict(spec, seed=case["seed"] + i, index=i), hp_config=shared) for i in range(P)]
    except Exception as e:  # not this clause's promise (construction is C01/C15 territory)
        F.label(f"setup-failed:{type(e).__name__}")
        return
    obs_space, act_space = ag.spaces_for(spec)

    # ---- environment -------------------------------------------------------
    vec = None
    if loop in ("off_policy", "on_policy", "offline"):
        if E == 0:
            base = le.CountingSingleEnv(obs_space, act_space, case["ep_len"], seed=case["seed"])
            rows = 1
        else:
            base = le.CountingVecEnv(E, obs_space, act_space, [case["ep_len"], case["ep_len"] + 1], seed=case["seed"])
            rows = E
    elif loop == "bandits":
        base = le.CountingBanditEnv(act_space.n, obs_space.shape[0], seed=case["seed"])
        rows = 1
    else:
        ids = ag.AGENT_IDS[: len(obs_space)]
        if E == 0:
            base = le.pz_env(ids, obs_space, act_space, case["ep_len"], seed=case["seed"])
            rows = 1
        else:
            from agilerl.vector.pz_async_vec_env import AsyncPettingZooVecEnv
            import functools

            fns = [functools.partial(le.pz_env, ids, obs_space, act_space, case["ep_len"] + i, case["seed"] + i) for i in range(E)]
            base = vec = AsyncPettingZooVecEnv(fns)
            rows = E
    env = le.CountingProxy(base, rows)
    num_envs = max(E, 1)

    # ---- evolution ------------------------------------------------------------
    tournament = mutation = None
    gens_log = []  # per generation: what select() saw
    elite_log = []
    if case["evolve"]:
        tournament = TournamentSelection(2, True, P, 1)
        mutation = hist.make_mutations(case["mut_probs"], case["seed"], mutate_elite=False)
        orig_select, orig_mut = tournament.select, mutation.mutation

        def select(population):
            gens_log.append([(token(a), list(a.steps), len(a.fitness), a.index) for a in population])
            means = [float(np.mean(a.fitness[-1:])) for a in population]
            best = [i for i, m in enumerate(means) if m == max(means)]
            elite_log.append({"best": [(_policy_snapshot(population[i]), {k: getattr(population[i], k) for k in population[i].registry.hp_config.names()})
                                       for i in best]})
            return orig_select(population)

        def mutate(population, pre_training_mut=False):
            out = orig_mut(population, pre_training_mut=pre_training_mut)
            if not pre_training_mut and elite_log and "first" not in elite_log[-1]:
                elite_log[-1]["first"] = (_policy_snapshot(out[0]), {k: getattr(out[0], k) for k in out[0].registry.hp_config.names()},
                                          out[0].mut)
            return out

        tournament.select, mutation.mutation = select, mutate

    # ---- memory -----------------------------------------------------------------
    cap = 64
    kw = dict(max_steps=case["max_steps"], evo_steps=case["evo_steps"], eval_steps=case["eval_steps"], eval_loop=1,
              tournament=tournament, mutation=mutation, wb=False, verbose=False,
              checkpoint=case["checkpoint"], checkpoint_path=os.path.join(work, "ckpt") if case["checkpoint"] else None,
              target=case["target"])
    classes = {type(a) for a in pop}
    sink = io.StringIO()
    resumed = None
    try:
        with instrument(classes), contextlib.redirect_stdout(sink), contextlib.redirect_stderr(sink):
            try:
                if loop == "off_policy":
                    from agilerl.training.train_off_policy import train_off_policy

                    per = case["memory"] in ("per", "per+nstep") and algo == "Rainbow"
                    nstep = case["memory"] in ("nstep", "per+nstep") and algo == "Rainbow"
                    memory = PrioritizedReplayBuffer(cap, alpha=0.6) if per else ReplayBuffer(cap)
                    n_mem = MultiStepReplayBuffer(cap, n_step=pop[0].n_step, gamma=pop[0].gamma) if nstep else None
                    out = train_off_policy(env, "env", algo, pop, memory, per=per, n_step=nstep, n_step_memory=n_mem,
                                           learning_delay=case["learning_delay"], **kw)
                elif loop == "on_policy":
                    from agilerl.training.train_on_policy import train_on_policy

                    out = train_on_policy(env, "env", algo, pop, **kw)
                elif loop == "offline":
                    from agilerl.training.train_offline import train_offline

                    rng = np.random.default_rng(case["seed"])
                    n = 40
                    from vp.gen import spaces as sp

                    dataset = {"observations": sp.sample_obs(obs_space, n, rng), "actions": rng.integers(0, act_space.n, size=(n, 1)),
                               "rewards": rng.normal(size=(n, 1)).astype(np.float32), "terminals": rng.integers(0, 2, size=(n, 1))}
                    out = train_offline(env, "env", dataset, algo, pop, ReplayBuffer(cap), **kw)
                elif loop == "bandits":
                    from agilerl.training.train_bandits import train_bandits

                    kw.pop("eval_steps")
                    out = train_bandits(env, "env", algo, pop, ReplayBuffer(cap), episode_steps=case["evo_steps"],
                                        eval_steps=case["eval_steps"] or 5, **kw)
                elif loop == "ma_off":
                    from agilerl.training.train_multi_agent_off_policy import train_multi_agent_off_policy

                    memory = MultiAgentReplayBuffer(cap, ["obs", "action", "reward", "next_obs", "done"], ag.AGENT_IDS[: len(obs_space)])
                    out = train_multi_agent_off_policy(env, "env", algo, pop, memory, learning_delay=case["learning_delay"], **kw)
                else:
                    from agilerl.training.train_multi_agent_on_policy import train_multi_agent_on_policy

                    out = train_multi_agent_on_policy(env, "env", algo, pop, **kw)
                # ---- a RESUMED run: the returned population (non-zero step counters) is trained on with a raised budget -------------
                if case.get("resume") and loop in ("on_policy", "ma_on") and not case["evolve"] and case["target"] is None:
                    pop1 = out[0]
                    c1 = {token(a): a.steps[-1] for a in pop1}
                    n1 = {token(a): len(a.steps) for a in pop1}
                    booked1 = dict(env.train_steps_by_agent)
                    cur = sum(c1.values()) if loop == "ma_on" else max(c1.values())
                    budget2 = cur if case["resume"] == 2 else cur + case["evo_steps"] * (1 + case["seed"] % 2) - case["seed"] % 3
                    kw2 = dict(kw, max_steps=budget2)
                    if loop == "ma_on":
                        out2 = train_multi_agent_on_policy(env, "env", algo, pop1, **kw2)
                    else:
                        out2 = train_on_policy(env, "env", algo, pop1, **kw2)
                    resumed = (out2, c1, n1, booked1, budget2, cur)
            except Exception as e:  # "runs every algorithm it supports to completion on any compatible environment"
                kind = "single_env" if E == 0 else "vector_env"
                import traceback as _tb

                frames = [f for f in _tb.extract_tb(e.__traceback__) if "/agilerl/" in f.filename.replace("\\", "/")]
                if frames and frames[-1].name == "test":
                    # one root cause spread over every algorithm's test(): name it once
                    F.items.append([f"C20/{loop}/completes/{kind}/agent_test/{type(e).__name__}", f"{type(e).__name__}: {str(e)[:300]}",
                                    {"algo": algo, "where": f"{os.path.basename(frames[-1].filename)}:test",
                                     "traceback": "".join(_tb.format_exception(e))[-1200:]}, True])
                elif loop == "ma_on" and E == 0 and case["obs"] == "discrete":
                    # one root class with several crash sites: 0-dim Discrete observations of a non-vectorised multi-agent env
                    F.items.append([f"C20/{loop}/completes/{kind}/discrete_scalar_observations", f"{type(e).__name__}: {str(e)[:300]}",
                                    {"algo": algo, "traceback": "".join(_tb.format_exception(e))[-1200:]}, True])
                else:
                    F.exc(f"C20/{loop}/completes/{kind}", e, algo=algo, obs=case["obs"], case_envs=E)
                return
    finally:
        if vec is not None:
            try:
                vec.close()
            except Exception:
                pass

    if resumed is not None:
        (pop2, fit2), c1, n1, booked1, budget2, cur = resumed
        G2 = len(fit2)
        F.label("resumed-run")
        F.label(f"loop={loop}")
        if len(pop2) != P:
            F.fail(f"C20/{loop}/resumed/population_size", "returned population does not have the size it was given", got=len(pop2), want=P)
        booked = env.train_steps_by_agent
        for a in pop2:
            t = token(a)
            if t in c1 and a.steps[-1] - c1[t] != booked.get(t, 0) - booked1.get(t, 0):
                F.fail(f"C20/{loop}/resumed/step_counter_differs_from_env_steps", "in a resumed run an agent's step counter does not advance "
                       "by the environment steps it actually took", counter_increment=a.steps[-1] - c1[t],
                       env_steps=booked.get(t, 0) - booked1.get(t, 0))
                break
        summed = loop == "ma_on"
        if all(token(a) in n1 and len(a.steps) >= n1[token(a)] - 1 + G2 for a in pop2):
            per_gen = [[a.steps[n1[token(a)] - 1 + g] for a in pop2] for g in range(G2)]
            met = [(sum(c) >= budget2) if summed else (max(c) >= budget2) for c in per_gen]
            if cur >= budget2:
                if G2 != 0:
                    F.fail(f"C20/{loop}/resumed/ran_past_budget", "the population already met the step budget when training was resumed, "
                           "yet further generations were trained", generations=G2, counters_before=sorted(c1.values()), max_steps=budget2)
            else:
                if not met or not met[-1]:
                    F.fail(f"C20/{loop}/resumed/stopped_before_budget", "resumed training stopped although the step budget was not met",
                           counters=per_gen[-1] if per_gen else sorted(c1.values()), max_steps=budget2)
                if any(met[:-1]):
                    F.fail(f"C20/{loop}/resumed/ran_past_budget", "resumed training continued after the generation in which the step "
                           "budget (which counts the steps the agents already carry) was met", counters=per_gen, max_steps=budget2,
                           counters_before=sorted(c1.values()))
        F.nontrivial = {k: case[k] for k in ("loop", "algo", "obs", "envs", "pop", "learn_step", "max_steps", "evo_steps")} | {"resume": case["resume"]}
        return

    # ---- accounting ----------------------------------------------------------------
    new_pop, pop_fitnesses = out
    G = len(pop_fitnesses)
    F.label(f"loop={loop}")
    F.label(f"algo={case['algo']}")
    F.label(f"envs={'single' if E == 0 else E}")
    F.label(f"generations={min(G, 5)}")
    if case.get("early_stop"):
        F.label("ended-by-early-stopping" if G < 120 else "early-stop-case-ran-to-budget")
        if G not in (99,) and G < 120:
            F.fail(f"C20/{loop}/early_stop/generations", "with a target that is exceeded from the start the loop must stop in the generation in "
                   "which 100 step entries exist (generation 99) and report every generation it ran", generations_reported=G,
                   fitness_entries=[len(a.fitness) for a in new_pop])
    if len(new_pop) != P:
        F.fail(f"C20/{loop}/population_size", "returned population does not have the size it was given", got=len(new_pop), want=P)
    idx = [a.index for a in new_pop]
    if len(set(idx)) != len(idx):
        F.fail(f"C20/{loop}/duplicate_indices", "two members of the returned population share an index", indices=idx)
    if any(len(f) != P for f in pop_fitnesses):
        F.fail(f"C20/{loop}/fitness_rows", "a generation's fitness row does not have one entry per agent", rows=[len(f) for f in pop_fitnesses])
    for a in new_pop:
        if len(a.fitness) != G:
            F.fail(f"C20/{loop}/fitness_entries_per_generation", "an agent does not carry exactly one fitness entry per generation",
                   got=len(a.fitness), generations=G)
            break

    # steps: what each agent object booked in the env while training vs its own counter
    unit = 1 if loop in ("offline",) else None
    if loop != "offline":
        booked = env.train_steps_by_agent
        if case["evolve"]:
            for g, snap in enumerate(gens_log):
                for (oid, steps, nfit, index) in snap:
                    c_g = steps[-1]
                    c_prev = steps[-3] if len(steps) >= 3 else 0
                    took = booked.get(oid, 0)
                    if c_g - c_prev != took:
                        F.fail(f"C20/{loop}/step_counter_differs_from_env_steps",
                               "an agent's step counter does not advance by the environment steps it actually took in a generation",
                               generation=g, counter_increment=c_g - c_prev, env_steps=took, steps_list=steps, num_envs=num_envs)
                        break
        else:
            for a in new_pop:
                took = booked.get(token(a), 0)
                if a.steps[-1] != took:
                    F.fail(f"C20/{loop}/step_counter_differs_from_env_steps",
                           "an agent's step counter differs from the environment steps it actually took",
                           counter=a.steps[-1], env_steps=took, steps_list=list(a.steps), num_envs=num_envs)
                    break
    # budget: stop in the FIRST generation in which the documented budget is met
    summed = loop == "ma_on"
    if case["target"] is None:
        if case["evolve"]:
            per_gen = [[s[1][-1] for s in snap] for snap in gens_log]
        else:
            per_gen = [[a.steps[g] for a in new_pop] for g in range(G)] if all(len(a.steps) >= G for a in new_pop) else []
        if per_gen:
            met = [(sum(c) >= case["max_steps"]) if summed else (max(c) >= case["max_steps"]) for c in per_gen]
            if not met[-1]:
                F.fail(f"C20/{loop}/stopped_before_budget", "training stopped although the step budget was not met",
                       counters=per_gen[-1], max_steps=case["max_steps"])
            if any(met[:-1]):
                F.fail(f"C20/{loop}/ran_past_budget", "training continued after the generation in which the step budget was met",
                       counters=per_gen, max_steps=case["max_steps"])
    # elitism: with mutate_elite=False the best agent of a generation is carried unchanged into the next
    for g, rec in enumerate(elite_log):
        if "first" not in rec:
            continue
        w, hps, mut = rec["first"]
        ok = False
        for bw, bh in rec["best"]:
            same_w = set(bw) == set(w) and all(not T.tensors_equal(bw[k], w[k]) for k in bw)
            if same_w and bh == hps:
                ok = True
        if not ok:
            F.fail(f"C20/{loop}/elite_not_carried_unchanged", "with elitism the first member of the next generation is not the "
                   "unchanged best agent of the previous one", generation=g, mut=str(mut))
    F.nontrivial = {k: case[k] for k in ("loop", "algo", "obs", "envs", "pop", "evolve", "memory", "learn_step", "max_steps", "evo_steps")}
    if G < 2:
        F.nontrivial = None
