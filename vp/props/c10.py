"""C10 - n-step returns never cross an episode boundary and stay aligned with 1-step data."""
from __future__ import annotations

import itertools
import os

import numpy as np
import torch
from hypothesis import strategies as st

from vp.core.engine import Obligation, Property

GAMMAS = [0.0, 0.5, 0.9, 1.0]


def _reward(t, e):
    # distinct powers of two (times a small env factor): sums are exact in float32 for gamma in {1, 1/2}
    return float((e + 1) * 2 ** (t % 12))


def _obs(t, e):
    return float(100 * t + e + 1)


def _next_obs(t, e):
    return float(100 * t + e + 1) + 0.5


def _action(t, e):
    return float(7 * t + e)


def run_stream(case, ctx):
    from agilerl.components.data import Transition
    from agilerl.components.replay_buffer import MultiStepReplayBuffer, ReplayBuffer

    n, gamma, cap = case["n"], GAMMAS[case["gamma"]], case["cap"]
    dones = case["dones"]  # [T][E] of 0/1
    T = len(dones)
    E = len(dones[0])
    vectorised = case.get("vectorised", True) or E > 1

    nbuf = MultiStepReplayBuffer(max_size=cap, n_step=n, gamma=gamma)
    mem = ReplayBuffer(max_size=cap)
    stored = 0  # number of rows handed to the 1-step buffer so far
    tol = 0.0 if gamma in (0.0, 0.5, 1.0) else 1e-5

    clears = set(case.get("clears", []))  # after these steps both buffers are clear()ed and then used again
    base, cand_base, stored_ks = 0, None, []
    positions = set()
    for t in range(T):
        for e in range(E):
            if dones[t][e]:
                # position of this terminal inside the windows that contain it
                positions.add("terminal-present")

    for t in range(T):
        if vectorised:
            tr = Transition(
                obs=np.array([[_obs(t, e)] for e in range(E)], dtype=np.float32),
                action=np.array([_action(t, e) for e in range(E)], dtype=np.float32),
                reward=np.array([_reward(t, e) for e in range(E)], dtype=np.float32),
                next_obs=np.array([[_next_obs(t, e)] for e in range(E)], dtype=np.float32),
                done=np.array([float(dones[t][e]) for e in range(E)], dtype=np.float32),
            )
        else:
            tr = Transition(
                obs=np.array([_obs(t, 0)], dtype=np.float32),
                action=np.float32(_action(t, 0)),
                reward=_reward(t, 0),
                next_obs=np.array([_next_obs(t, 0)], dtype=np.float32),
                done=bool(dones[t][0]),
            ).unsqueeze(0)
        td = tr.to_tensordict()
        td.batch_size = [E]
        with ctx.promised("C10/add"):
            one = nbuf.add(td)
            if one is not None:
                mem.add(one)
        if cand_base is not None and t - base >= n - 1:
            # what clear() does to the partly filled window is not specified: the window may go on sliding over the stream
            # (as on this tree) or restart empty.  The first add at which a kept window is full tells which (a restarted
            # window is still filling then); both are then held to the statement
            if one is None and t - cand_base < n - 1:
                base = cand_base
                ctx.label("clear:window-restarted")
            else:
                ctx.label("clear:window-kept")
            cand_base = None
        if t - base < n - 1:
            ctx.check(one is None, "C10/returned/early_return",
                      "add returned a transition before n steps were seen", t=t, n=n)
            if t in clears:
                with ctx.promised("C10/clear"):
                    nbuf.clear()
                    mem.clear()
                stored_ks, cand_base = [], t + 1
            continue
        if one is None:
            ctx.abort("C10/returned/none_after_n", "add returned None although the window is full", t=t, n=n)
        k = t - (n - 1)  # window start == index of the row just stored
        # the value handed to the 1-step buffer must be the oldest raw transition
        ro = one["obs"].reshape(E, -1)[:, 0].tolist()
        ctx.check(ro == [_obs(k, e) for e in range(E)], "C10/returned/not_oldest_raw",
                  "value returned by add() is not the raw transition the window starts with",
                  got=ro, want=[_obs(k, e) for e in range(E)])
        rr = one["reward"].reshape(E).tolist()
        ctx.check(rr == [_reward(k, e) for e in range(E)], "C10/returned/not_raw_reward",
                  "value returned by add() does not carry the raw 1-step reward",
                  got=rr, want=[_reward(k, e) for e in range(E)])
        stored += 1
        stored_ks.append(k)
        if t in clears:
            with ctx.promised("C10/clear"):
                nbuf.clear()
                mem.clear()
            stored_ks, cand_base = [], t + 1
            ctx.label("cleared-and-reused" if t < T - 1 else "cleared-at-end")

    stored = len(stored_ks)
    if stored == 0:
        ctx.check(len(nbuf) == 0 and len(mem) == 0, "C10/len/nonempty", "rows stored before any window was full")
        return

    rows_per_add = E
    total_rows = stored * rows_per_add
    want_len = min(cap, total_rows)
    ctx.check(len(nbuf) == want_len and len(mem) == want_len, "C10/len/mismatch",
              "buffer lengths differ from min(capacity, rows added)",
              nstep=len(nbuf), onestep=len(mem), want=want_len)

    # map storage position -> (k, e) of the newest row written there
    pos2row = {}
    for r in range(total_rows):
        pos2row[r % cap] = (stored_ks[r // E], r % E)

    ns, ms = nbuf.storage, mem.storage
    labels = set()
    for p, (k, e) in sorted(pos2row.items()):
        if p >= want_len:
            continue
        n_obs = float(ns["obs"][p].reshape(-1)[0])
        n_act = float(ns["action"][p].reshape(-1)[0])
        m_obs = float(ms["obs"][p].reshape(-1)[0])
        m_act = float(ms["action"][p].reshape(-1)[0])
        ctx.check(n_obs == _obs(k, e) and n_act == _action(k, e), "C10/align/nstep_row_start",
                  "n-step row does not start from the (obs, action) of its window start",
                  pos=p, k=k, env=e, got=[n_obs, n_act], want=[_obs(k, e), _action(k, e)])
        ctx.check(m_obs == n_obs and m_act == n_act, "C10/align/onestep_vs_nstep",
                  "k-th 1-step row and k-th n-step row describe different (obs, action)",
                  pos=p, k=k, env=e, nstep=[n_obs, n_act], onestep=[m_obs, m_act])
        # horizon of this env
        he = n
        for j in range(n):
            if dones[k + j][e]:
                he = j + 1
                break
        # allowed cuts
        allowed = {he}
        for m in range(1, he):
            if any(dones[k + m - 1][e2] for e2 in range(E) if e2 != e):
                allowed.add(m)
        got = (float(ns["reward"][p].reshape(-1)[0]), float(ns["next_obs"][p].reshape(-1)[0]),
               float(ns["done"][p].reshape(-1)[0]))
        ok = False
        wants = []
        for m in sorted(allowed):
            rew = sum((gamma ** j) * _reward(k + j, e) for j in range(m))
            want = (rew, _next_obs(k + m - 1, e), float(dones[k + m - 1][e]))
            wants.append(want)
            if abs(got[0] - want[0]) <= tol * max(1.0, abs(want[0])) and got[1] == want[1] and got[2] == want[2]:
                ok = True
                break
        # classify for the signature: where is the terminal in the window
        if he < n:
            where = "first" if he == 1 else ("middle" if he < n else "last")
        elif dones[k + n - 1][e]:
            where = "last"
        else:
            where = "none"
        labels.add("terminal-" + where)
        if not ok:
            sig = f"C10/fuse/terminal_in_{where}_slot"
            msg = ("stored (reward, next_obs, done) is not the fuse of any allowed prefix of the window "
                   f"(terminal step of this env: {where} slot)")
            ctx.fail(sig, msg, pos=p, k=k, env=e, n=n, gamma=gamma, horizon=he,
                     got=got, allowed=wants, window_dones=[dones[k + j] for j in range(n)])

    # sampling by the 1-step buffer's indices keeps the pairing
    torch.manual_seed(case.get("seed", 0))
    bs = 1 + case.get("bs", 0) % want_len
    with ctx.promised("C10/sample"):
        b = mem.sample(bs, return_idx=True)
        nb = nbuf.sample_from_indices(b["idxs"])
    ctx.check(torch.equal(b["obs"], nb["obs"]) and torch.equal(b["action"], nb["action"]),
              "C10/align/sample_from_indices", "n-step batch fetched by the 1-step batch's indices is not row-aligned")

    for l in labels:
        ctx.label(l)
    wrapped = total_rows > cap
    ctx.label("wrapped" if wrapped else "no-wrap")
    ctx.label(f"envs={E}")
    ctx.label(f"n={n}")
    if ("terminal-first" in labels or "terminal-middle" in labels or "terminal-last" in labels):
        ctx.nontrivial({"n": n, "g": case["gamma"], "cap": cap, "d": dones})


def run_loop_alignment(case, ctx):
    """The statement's last clause inside the real train_off_policy: whenever Rainbow's learn() is handed a 1-step batch together
    with an n-step batch (sampled by the same indices), the k-th rows of the two describe the same (observation, action) - also after
    both buffers have wrapped around, which is where the two cursors can drift apart."""
    import contextlib
    import io
    import shutil
    import tempfile

    from agilerl.components.replay_buffer import MultiStepReplayBuffer, PrioritizedReplayBuffer, ReplayBuffer
    from agilerl.training.train_off_policy import train_off_policy
    from vp.gen import agents as ag
    from vp.gen import loopenvs as le

    E, cap, per = case["envs"], case["cap"], case["per"]
    spec = {"algo": "Rainbow", "obs": "vector", "obsv": 0, "actv": 0, "seed": case["seed"],
            "hp": {"batch_size": case["batch_size"], "learn_step": case["learn_step"]}}
    try:
        ag.seed_all(case["seed"])
        agent = ag.build(spec)
        obs_space, act_space = ag.spaces_for(spec)
    except Exception as e:  # noqa: BLE001
        ctx.label(f"setup-failed:{type(e).__name__}")
        return
    env = (le.CountingVecEnv(E, obs_space, act_space, [case["ep_len"], case["ep_len"] + 1], seed=case["seed"]) if E
           else le.CountingSingleEnv(obs_space, act_space, case["ep_len"], seed=case["seed"]))
    rows = max(E, 1)
    memory = PrioritizedReplayBuffer(cap, alpha=0.6) if per else ReplayBuffer(cap)
    nmem = MultiStepReplayBuffer(cap, n_step=agent.n_step, gamma=agent.gamma)
    calls = []
    cls = type(agent)
    orig = cls.learn

    def learn(self, experiences, n_experiences=None, per=False):
        if n_experiences is not None:
            calls.append((experiences["obs"].clone(), experiences["action"].clone(), n_experiences["obs"].clone(),
                          n_experiences["action"].clone(), experiences["idxs"].reshape(-1).tolist(), len(memory), len(nmem)))
        return orig(self, experiences, n_experiences=n_experiences, per=per)

    work = tempfile.mkdtemp(prefix="vpc10_")
    cwd = os.getcwd()
    os.chdir(work)
    cls.learn = learn
    sink = io.StringIO()
    try:
        with contextlib.redirect_stdout(sink), contextlib.redirect_stderr(sink):
            try:
                train_off_policy(env, "env", "Rainbow", [agent], memory, max_steps=case["max_steps"], evo_steps=case["max_steps"],
                                 eval_steps=2, eval_loop=1, per=per, n_step=True, n_step_memory=nmem, tournament=None, mutation=None,
                                 wb=False, verbose=False, checkpoint=None)
            except Exception as e:  # noqa: BLE001 - "runs to completion" is C20's clause
                ctx.label(f"loop-raised:{type(e).__name__}")
    finally:
        cls.learn = orig
        os.chdir(cwd)
        shutil.rmtree(work, ignore_errors=True)
    if not calls:
        ctx.label("loop:no-learn-call-with-n-step-batch")
        return
    wrapped = False
    for i, (o1, a1, on, an, idxs, l1, ln) in enumerate(calls):
        wrapped |= l1 >= cap
        B = o1.shape[0]
        # (with prioritised sampling the indices are (B, 1) and the n-step batch comes back as (B, 1, ...): rows are compared flattened)
        f1, fn = o1.reshape(B, -1), on.reshape(on.shape[0], -1)
        same = f1.shape == fn.shape and torch.equal(f1, fn) and torch.equal(a1.reshape(-1).double(), an.reshape(-1).double())
        if not same:
            bad = [j for j in range(B) if f1.shape != fn.shape or not torch.equal(f1[j], fn[j])][:4]
            ctx.fail("C10/loop/learn_batches_not_row_aligned" + ("/after_wrap_around" if l1 >= cap else ""),
                     "train_off_policy handed learn() a 1-step batch and an n-step batch whose k-th rows describe different "
                     "(observation, action) pairs", learn_call=i, rows=bad, idxs=idxs[:8], len_one_step=l1, len_n_step=ln, capacity=cap,
                     num_envs=rows)
        ctx.check(l1 == ln, "C10/loop/buffer_lengths_differ_at_learn_time",
                  "the 1-step and the n-step buffer hold different numbers of rows when a batch is sampled from both by the same indices",
                  len_one_step=l1, len_n_step=ln, learn_call=i)
    ctx.label("loop:wrapped" if wrapped else "loop:no-wrap")
    ctx.label(f"loop:envs={'single' if E == 0 else E}")
    ctx.label("loop:per" if per else "loop:uniform")
    if wrapped:
        ctx.nontrivial({"loop": 1, "E": E, "cap": cap, "per": per, "bs": case["batch_size"], "ls": case["learn_step"], "ms": case["max_steps"]})


@st.composite
def loop_strategy(draw, tier):
    E = draw(st.sampled_from([0, 1, 2, 3]))
    rows = max(E, 1)
    cap = rows * draw(st.integers(2, 6)) + draw(st.integers(0, 2))
    return {"envs": E, "cap": cap, "per": draw(st.booleans()), "batch_size": draw(st.integers(2, 4)),
            "learn_step": draw(st.sampled_from([1, 1, 2, 3])), "ep_len": draw(st.integers(2, 7)),
            "max_steps": cap * draw(st.integers(2, 4)) + draw(st.integers(0, 5)), "seed": draw(st.integers(0, 999))}


def enum_streams(tier):
    L = 8 if tier == "quick" else 10
    for n in (1, 2, 3, 4):
        for length in range(n, L + 1):
            for pat in itertools.product((0, 1), repeat=length):
                # gamma: 1 and 1/2 give exact sums
                for g in ((3,) if length < L else (1, 3)):
                    yield {"n": n, "gamma": g, "cap": 4 if length > 5 else 16,
                           "dones": [[d] for d in pat], "vectorised": bool(length % 2), "bs": length}
    if tier == "thorough":
        for n in (1, 2, 3):
            for length in range(n, 7):
                for pat in itertools.product((0, 1), repeat=2 * length):
                    yield {"n": n, "gamma": 3, "cap": 8,
                           "dones": [[pat[2 * i], pat[2 * i + 1]] for i in range(length)], "bs": 3}


@st.composite
def stream_strategy(draw, tier):
    E = draw(st.integers(1, 3))
    n = draw(st.integers(1, 5))
    T = draw(st.integers(n, 16 if tier == "quick" else 40))
    p_done = draw(st.sampled_from([0.1, 0.3, 0.6]))
    dones = draw(st.lists(st.lists(st.floats(0, 1).map(lambda x: int(x < p_done)), min_size=E, max_size=E),
                          min_size=T, max_size=T))
    cap = draw(st.integers(E, 36))
    return {"n": n, "gamma": draw(st.integers(0, 3)), "cap": cap, "dones": dones,
            "vectorised": draw(st.booleans()), "bs": draw(st.integers(0, 20)), "seed": draw(st.integers(0, 99)),
            "clears": draw(st.lists(st.integers(0, T - 1), max_size=2, unique=True)) if draw(st.integers(0, 3)) == 0 else []}


PROPERTY = Property(
    id="C10",
    level="exploration",
    rule=("streams of tagged transitions pushed through MultiStepReplayBuffer+ReplayBuffer exactly as train_off_policy does; "
          "all 2^L done patterns for one env (L<=8 quick, <=10 thorough; two envs L<=6 thorough) plus random 1-3 env streams; "
          "non-trivial = some stored window contains a terminal step (first/middle/last slot labelled); distinct by (n, gamma, capacity, done pattern)"),
    obligations=[
        Obligation("nstep_exhaustive", run_stream, enumerate=enum_streams,
                   shards={"quick": 8, "thorough": 16},
                   exhaustive_note="all done-flag placements for one env, stream length n..L, n in 1..4 (L=8 quick, 10 thorough); thorough also all two-env patterns up to length 6"),
        Obligation("train_off_policy_alignment", run_loop_alignment, strategy=loop_strategy,
                   examples={"quick": 12, "thorough": 120}, shards={"quick": 4, "thorough": 16},
                   shrink_budget={"quick": 20, "thorough": 100}),
        Obligation("nstep_random", run_stream, strategy=stream_strategy,
                   examples={"quick": 400, "thorough": 6000}, shards={"quick": 8, "thorough": 16}),
    ],
    assumptions=["capacity is a multiple of num_envs and equal for both buffers (as train_off_policy builds them)",
                 "reference fuse written from the statement; rewards are powers of two so float32 sums are exact for gamma in {0,1/2,1}"],
    wanted_labels=["terminal-first", "terminal-middle", "terminal-last", "wrapped", "envs=2", "envs=3"],
    fuzz=['nstep_random'],
)
