"""C08 - value-based learning uses the Bellman target and really tracks its target network."""
from __future__ import annotations

import copy
import os
import tempfile

import numpy as np
import torch
from hypothesis import strategies as st

from vp.core import engine
from vp.core.engine import Obligation, Property
from vp.gen import agents as ag
from vp.gen import histories as hist
from vp.gen import spaces as sp
from vp.obs import tensors as T

LEARNERS = ["DQN", "DDQN", "CQN", "Rainbow", "DDPG", "TD3", "MADDPG", "MATD3"]
DELAYED = ("DDPG", "TD3", "MATD3")
TAUS = [0.01, 0.3, 0.5, 1.0]


def perturb_targets(agent, seed, scale=0.05):
    """Make every target differ from its online network (so that tracking is observable)."""
    g = torch.Generator().manual_seed(seed)
    for grp in agent.registry.groups:
        if grp.shared is None:
            continue
        for name in (grp.shared if isinstance(grp.shared, list) else [grp.shared]):
            nets = getattr(agent, name)
            for net in (nets if isinstance(nets, list) else [nets]):
                names = None
                for k, t in T.all_tensors(net).items():
                    if t.is_floating_point() and _is_weight(agent, name, k):
                        with torch.no_grad():
                            t.add_(torch.randn(t.shape, generator=g) * scale)


def _is_weight(agent, shared_name, key):
    """only tensors that are parameters of the corresponding online network are weights (not sample inputs, noise buffers)"""
    for grp in agent.registry.groups:
        if grp.shared is not None and shared_name in (grp.shared if isinstance(grp.shared, list) else [grp.shared]):
            ev = getattr(agent, grp.eval)
            ev = ev[0] if isinstance(ev, list) else ev
            return key in dict(ev.named_parameters())
    return False


def pairs(agent):
    """[(eval_label, eval_net, target_label, target_net)] for every target/shared network"""
    out = []
    for grp in agent.registry.groups:
        if grp.shared is None:
            continue
        ev = getattr(agent, grp.eval)
        for name in (grp.shared if isinstance(grp.shared, list) else [grp.shared]):
            tg = getattr(agent, name)
            if isinstance(ev, list):
                for i, (e, t) in enumerate(zip(ev, tg)):
                    out.append((f"{grp.eval}[{i}]", e, f"{name}[{i}]", t))
            else:
                out.append((grp.eval, ev, name, tg))
    return out


def make_batch(agent, spec, n, seed, dones):
    algo = spec["algo"]
    if algo in ag.MULTI_OFF:
        return ag.ma_batch(agent, spec, n, seed, dones=dones)
    return ag.offpolicy_batch(agent, spec, n, seed, dones=dones)


def perturb_next_obs(batch, spec, dones, seed):
    """Return a copy of the batch whose next observations are replaced on rows with done=1."""
    rng = np.random.default_rng(seed)
    rows = [i for i, d in enumerate(dones) if d]
    algo = spec["algo"]
    if algo in ag.MULTI_OFF:
        obs_l, _ = ag.spaces_for(spec)
        ids = ag.AGENT_IDS[: len(obs_l)]
        b = [copy.deepcopy(f) for f in batch]
        nxt = b[3]
        for a, s in zip(ids, obs_l):
            new = sp.sample_obs(s, len(dones), rng)
            _assign(nxt, a, new, rows)
        return tuple(b)
    obs_space, _ = ag.spaces_for(spec)
    b = batch.clone()
    new = sp.sample_obs(obs_space, len(dones), rng)
    _assign(b, "next_obs", new, rows)
    return b


def _assign(container, key, new, rows):
    cur = container[key]
    if isinstance(new, dict):
        for k in new:
            t = cur[k]
            for r in rows:
                t[r] = torch.as_tensor(new[k][r]).to(t.dtype).reshape(t[r].shape)
    elif isinstance(new, tuple):
        for j, arr in enumerate(new):
            t = cur[j] if isinstance(cur, (tuple, list)) else cur[f"tuple_obs_{j}"]
            for r in rows:
                t[r] = torch.as_tensor(arr[r]).to(t.dtype).reshape(t[r].shape)
    else:
        for r in rows:
            cur[r] = torch.as_tensor(new[r]).to(cur.dtype).reshape(cur[r].shape)


def do_learn(agent, spec, batch, seed, mode="1step", nbatch=None):
    ag.seed_all(seed)
    algo = spec["algo"]
    b = batch.clone() if hasattr(batch, "clone") else copy.deepcopy(batch)
    if algo == "Rainbow":
        if mode == "per":
            b["weights"] = torch.ones(b.batch_size[0], 1)
            b["idxs"] = torch.arange(b.batch_size[0]).unsqueeze(1)
            return agent.learn(b, n_experiences=None, per=True)
        if mode == "nstep":
            b["idxs"] = torch.arange(b.batch_size[0])
            return agent.learn(b, n_experiences=nbatch.clone(), per=False)
        return agent.learn(b, n_experiences=None, per=False)
    return agent.learn(b)


def run_masking(case, ctx):
    spec = case["spec"]
    algo = spec["algo"]
    n = case["n"]
    spec = dict(spec, hp=dict(spec.get("hp", {}), batch_size=n))
    dones = case["dones"][:n]
    dones = (dones + [0] * n)[:n]
    mode = case["mode"] if algo == "Rainbow" else "1step"
    site = f"C08/masking/{algo}"
    try:
        A1, A2 = ag.build(spec), ag.build(spec)
    except Exception as e:
        ctx.label(f"setup-failed:{type(e).__name__}")
        return
    perturb_targets(A1, case["pseed"])
    perturb_targets(A2, case["pseed"])
    batch = make_batch(A1, spec, n, case["bseed"], dones)
    batch2 = perturb_next_obs(batch, spec, dones, case["bseed"] + 1)
    nb = nb2 = None
    if mode == "nstep":
        ndones = (case["ndones"] + [0] * n)[:n]
        nb = make_batch(A1, spec, n, case["bseed"] + 7, ndones)
        nb["obs"], nb["action"] = batch["obs"].clone(), batch["action"].clone()
        nb2 = perturb_next_obs(nb, spec, ndones, case["bseed"] + 9)
    with ctx.promised(site + "/learn"):
        l1 = do_learn(A1, spec, batch, case["lseed"], mode, nb)
        l2 = do_learn(A2, spec, batch2, case["lseed"], mode, nb2)
    if algo == "Rainbow":
        # the projection sums next-state probabilities of done rows onto one atom: analytically 1, numerically 1 +- ulp
        a1, a2 = float(l1[0]), float(l2[0])
        same_loss = abs(a1 - a2) <= 1e-5 * max(1.0, abs(a1))
    else:
        same_loss = repr(_round(l1)) == repr(_round(l2))
    ctx.check(same_loss, f"{site}/loss_depends_on_next_obs_of_done_rows",
              "changing next_obs only on rows with done=1 changed the loss", loss=repr(l1)[:200], loss_perturbed=repr(l2)[:200],
              dones=dones, mode=mode)
    if algo == "Rainbow":
        # The projection's rounding makes the two losses differ in the last bits; Adam turns bit-level gradient differences of
        # near-zero gradients into O(lr) weight differences, so post-step weights are not comparable. Compare the gradients
        # that the step used (still stored on the parameters) with a tolerance relative to the largest gradient.
        d = []
        g1 = {k: p.grad for k, p in A1.actor.named_parameters() if p.grad is not None}
        g2 = {k: p.grad for k, p in A2.actor.named_parameters() if p.grad is not None}
        scale = max([float(g.abs().max()) for g in g1.values()] + [1e-6])
        for k in g1:
            if k not in g2 or float((g1[k] - g2[k]).abs().max()) > 1e-4 * scale + 1e-8:
                d.append(f"gradient.actor.{k}: max|d|={float((g1[k] - g2[k]).abs().max()) if k in g2 else float('nan'):.3g} (scale {scale:.3g})")
    else:
        d = T.diff(T.snapshot(A1), T.snapshot(A2), sections=("tensors",))
    if d:
        ctx.fail(f"{site}/update_depends_on_next_obs_of_done_rows",
                 f"changing next_obs only on rows with done=1 changed the update: {d[0]}", diffs=d[:4], dones=dones, mode=mode)
    ctx.label(f"algo={algo}")
    ctx.label(f"mode={mode}")
    ctx.label(f"obs={spec.get('obs')}")
    if any(dones) and not all(dones):
        ctx.nontrivial({"a": algo, "o": spec.get("obs"), "d": dones, "m": mode, "n": n})


def _round(x):
    """losses as returned (floats / tuples / dicts / arrays) in comparable form"""
    if isinstance(x, dict):
        return {k: _round(v) for k, v in sorted(x.items())}
    if isinstance(x, (tuple, list)):
        return [_round(v) for v in x]
    if isinstance(x, np.ndarray):
        return x.tolist()
    if isinstance(x, torch.Tensor):
        return x.tolist()
    return x


def run_soft_update(case, ctx):
    spec = case["spec"]
    algo = spec["algo"]
    tau = TAUS[case["tau"]]
    hp = dict(spec.get("hp", {}), tau=tau)
    if algo in DELAYED:
        hp["policy_freq"] = case["policy_freq"]
    spec = dict(spec, hp=hp)
    site = f"C08/soft_update/{algo}"
    try:
        agent = ag.build(spec, hp_config=ag.make_hp_config(algo))
        pres = case["prefix"] if case["prefix"] and isinstance(case["prefix"][0], list) else [case["prefix"]]
        for pre in pres:
            if pre[0] == "clone":
                agent = agent.clone()
            elif pre[0] == "mutate":
                agent = hist.mutate(agent, pre[1], pre[2])
            elif pre[0] == "checkpoint":
                d = tempfile.mkdtemp(prefix="vpc08_")
                try:
                    path = os.path.join(d, "a.pt")
                    agent.save_checkpoint(path)
                    if len(pre) > 1 and pre[1]:
                        fresh = ag.build(dict(spec, seed=spec["seed"] + 1), hp_config=ag.make_hp_config(algo))
                        fresh.load_checkpoint(path)
                        agent = fresh
                    else:
                        agent = type(agent).load(path)
                finally:
                    import shutil

                    shutil.rmtree(d, ignore_errors=True)
            elif pre[0] == "learn":
                for i in range(2):
                    ag.seed_all(pre[1] + i)
                    ag.learn_once(agent, spec, pre[1] + i)
        pre = ["+".join(p[0] for p in pres)]
    except Exception as e:
        ctx.label(f"setup-failed:{type(e).__name__}")
        return
    perturb_targets(agent, case["pseed"])
    moved_any = False
    for step in range(case["steps"]):
        pr = pairs(agent)
        before_t = {tl: T.clone_tensors(t) for _, _, tl, t in pr}
        before_e = {el: T.clone_tensors(e) for el, e, _, _ in pr}
        n = agent.batch_size
        batch = make_batch(agent, spec, n, case["bseed"] + step, None)
        with ctx.promised(site + "/learn", prefix=pre[0]):
            out = do_learn(agent, spec, batch, case["lseed"] + step)
        policy_step = True
        if algo in ("DDPG", "TD3"):
            policy_step = out[0] is not None
        elif algo == "MATD3":
            policy_step = all(v[0] is not None for v in out.values())
        for el, e, tl, t in pairs(agent):
            after_t = T.clone_tensors(t)
            after_e = T.clone_tensors(e)
            online_moved = bool(T.tensors_equal(before_e[el], after_e))
            missing = [k for k in dict(e.named_parameters()) if k not in after_t]
            if missing:
                ctx.fail(f"{site}/target_lacks_online_weights", "target network has no tensor for some online weights",
                         target=tl, online=el, prefix=pre[0], missing=missing[:4])
                continue
            weight_names = set(dict(e.named_parameters()).keys())
            for k in sorted(after_t):
                if k not in weight_names or not after_t[k].is_floating_point():
                    continue
                if policy_step:
                    want = tau * after_e[k].double() + (1 - tau) * before_t[tl][k].double()
                else:
                    want = before_t[tl][k].double()
                # float32 arithmetic in the library: the mixture is exact up to a few ulps of the LARGER operand (parameter
                # mutations can make weights of magnitude 10-100, where one float32 ulp is already ~1e-5)
                allowed = 1e-6 + 1e-6 * torch.maximum(after_e[k].double().abs(), before_t[tl][k].double().abs()) if want.numel() else None
                excess = float(((after_t[k].double() - want).abs() - allowed).max()) if want.numel() else 0.0
                err = float((after_t[k].double() - want).abs().max()) if want.numel() else 0.0
                if excess > 0:
                    frozen = torch.equal(after_t[k], before_t[tl][k])
                    kind = "target_frozen" if (frozen and policy_step) else ("moved_off_schedule" if not policy_step else "wrong_mixture")
                    ctx.fail(f"{site}/{kind}",
                             f"after a learn step target != tau*online + (1-tau)*previous target ({kind})",
                             target=tl, tensor=k, max_err=err, tau=tau, prefix=pre[0], step=step, policy_step=policy_step)
                    break
            if policy_step and online_moved:
                moved_any = True
    ctx.label(f"algo={algo}")
    ctx.label(f"prefix={pre[0]}")
    ctx.label(f"tau={tau}")
    if moved_any:
        ctx.nontrivial({"a": algo, "o": spec.get("obs"), "p": pre[0], "t": case["tau"], "s": case["steps"], "pf": case["policy_freq"]})


def run_loss(case, ctx):
    """The value learn() returns equals an independent re-computation of the algorithm's loss with the Bellman target."""
    spec = case["spec"]
    algo = spec["algo"]
    n = case["n"]
    spec = dict(spec, hp=dict(spec.get("hp", {}), batch_size=n, gamma=case["gamma"]))
    dones = (case["dones"] + [0] * n)[:n]
    site = f"C08/loss/{algo}"
    try:
        agent = ag.build(spec)
    except Exception as e:
        ctx.label(f"setup-failed:{type(e).__name__}")
        return
    perturb_targets(agent, case["pseed"])
    batch = ag.offpolicy_batch(agent, spec, n, case["bseed"], dones=dones)
    g = case["gamma"]
    with torch.no_grad():
        obs = agent.preprocess_observation(batch["obs"].clone() if hasattr(batch["obs"], "clone") else batch["obs"])
        nobs = agent.preprocess_observation(batch["next_obs"].clone() if hasattr(batch["next_obs"], "clone") else batch["next_obs"])
        r = batch["reward"].double()
        d = batch["done"].double()
        a = batch["action"]
        if algo in ("DQN", "DDQN", "CQN"):
            q = agent.actor(obs).double()
            qt = agent.actor_target(nobs).double()
            if algo == "DDQN":
                idx = agent.actor(nobs).argmax(dim=1, keepdim=True)
                nxt = qt.gather(1, idx)
            else:
                nxt = qt.max(dim=1, keepdim=True)[0]
            y = r + g * (1 - d) * nxt
            qa = q.gather(1, a.long().reshape(n, 1))
            mse = float(((qa - y) ** 2).mean())
            if algo == "CQN":
                want = float((torch.logsumexp(q, dim=1).mean() - q.mean()) + 0.5 * mse)
            else:
                want = mse
        elif algo == "DDPG":
            na = agent.actor_target(nobs)
            y = r + (1 - d) * g * agent.critic_target(nobs, na).double()
            want = float(((agent.critic(obs, a).double() - y) ** 2).mean())
        elif algo == "TD3":
            na = agent.actor_target(nobs)
            qn = torch.min(agent.critic_target_1(nobs, na), agent.critic_target_2(nobs, na)).double()
            y = r + (1 - d) * g * qn
            want = float(((agent.critic_1(obs, a).double() - y) ** 2).mean() + ((agent.critic_2(obs, a).double() - y) ** 2).mean())
    with ctx.promised(site + "/learn"):
        ag.seed_all(case["lseed"])
        if algo in ("DDPG", "TD3"):
            out = agent.learn(batch.clone(), policy_noise=0.0)
            got = out[1]
        else:
            got = agent.learn(batch.clone())
    ctx.check(abs(got - want) <= 1e-4 * max(1.0, abs(want)), f"{site}/not_the_bellman_loss",
              "returned loss differs from the loss recomputed with target r + gamma (1-done) Q_target(next)",
              got=got, want=want, gamma=g, dones=dones)
    ctx.label(f"algo={algo}")
    if any(dones) and not all(dones):
        ctx.nontrivial({"a": algo, "o": spec.get("obs"), "d": dones, "g": g})


def run_ma_loss(case, ctx):
    """MADDPG / MATD3: the critic loss learn() reports for EVERY agent is the mean squared error against
    r_i + gamma (1 - done_i) Q_target_i(next observations of all agents, target actors' next actions) - with the agent's OWN done
    flag: agents of a PettingZoo environment can finish individually, so the flags of one row may differ between agents."""
    spec = case["spec"]
    algo = spec["algo"]
    n = case["n"]
    g = case["gamma"]
    spec = dict(spec, hp=dict(spec.get("hp", {}), batch_size=n, gamma=g))
    site = f"C08/loss/{algo}"
    try:
        agent = ag.build(spec)
        nag = len(agent.agent_ids)
        dones = [[(case["dones"][(i * nag + j) % len(case["dones"])]) for j in range(nag)] for i in range(n)]
        perturb_targets(agent, case["pseed"])
        batch = ag.ma_batch(agent, spec, n, case["bseed"], dones=dones)
    except Exception as e:  # noqa: BLE001
        ctx.label(f"setup-failed:{type(e).__name__}")
        return
    ids = list(agent.agent_ids)
    states, actions, rewards, next_states, dn = batch
    want = {}
    with torch.no_grad():
        st_ = agent.preprocess_observation({k: (v.clone() if hasattr(v, "clone") else copy.deepcopy(v)) for k, v in states.items()})
        ns_ = agent.preprocess_observation({k: (v.clone() if hasattr(v, "clone") else copy.deepcopy(v)) for k, v in next_states.items()})
        na = [agent.actor_targets[i](ns_[a]) for i, a in enumerate(ids)]
        S, NS = agent.stack_critic_observations(st_), agent.stack_critic_observations(ns_)
        A = torch.cat([actions[a] for a in ids], dim=1)
        NA = torch.cat(na, dim=1)
        for i, a in enumerate(ids):
            r, d = rewards[a].double().reshape(n, 1), dn[a].double().reshape(n, 1)
            if algo == "MADDPG":
                y = r + (1 - d) * g * agent.critic_targets[i](NS, NA).double()
                want[a] = float(((agent.critics[i](S, A).double() - y) ** 2).mean())
            else:
                qn = torch.min(agent.critic_targets_1[i](NS, NA), agent.critic_targets_2[i](NS, NA)).double()
                y = r + (1 - d) * g * qn
                want[a] = float(((agent.critics_1[i](S, A).double() - y) ** 2).mean() + ((agent.critics_2[i](S, A).double() - y) ** 2).mean())
    with ctx.promised(site + "/learn"):
        ag.seed_all(case["lseed"])
        out = agent.learn(copy.deepcopy(batch))
    hetero = any(len(set(row)) > 1 for row in dones)
    for a in ids:
        got = out[a][1] if isinstance(out[a], (tuple, list)) else out[a]
        got = float(got)
        ctx.check(abs(got - want[a]) <= 1e-4 * max(1.0, abs(want[a])), f"{site}/not_the_bellman_loss" + ("/per_agent_done_flags" if hetero else ""),
                  "critic loss of an agent differs from the loss recomputed with target r_i + gamma (1 - done_i) Q_target_i(next)",
                  agent=a, got=got, want=want[a], gamma=g, dones=dones)
    ctx.label(f"algo={algo}")
    ctx.label("ma-loss:per-agent-done-flags-differ" if hetero else "ma-loss:shared-done-flags")
    if hetero:
        ctx.nontrivial({"a": algo, "o": spec.get("obs"), "d": dones, "g": g, "ma": 1})


@st.composite
def ma_loss_strategy(draw, tier):
    algo = draw(st.sampled_from(engine.stratum(["MADDPG", "MATD3"])))
    spec = {"algo": algo, "obs": draw(st.sampled_from(["vector", "vector", "image"])), "obsv": draw(st.integers(0, 2)), "actv": draw(st.integers(0, 2)),
            "seed": draw(st.integers(0, 9999)), "act": "box"}
    n = draw(st.integers(2, 6))
    return {"spec": spec, "n": n, "gamma": draw(st.sampled_from([0.0, 0.5, 0.9, 0.99, 1.0])),
            "dones": draw(st.lists(st.integers(0, 1), min_size=1, max_size=18)), "pseed": draw(st.integers(0, 999)),
            "bseed": draw(st.integers(0, 999)), "lseed": draw(st.integers(0, 999))}


def run_stale(case, ctx):
    """The update a learn step computes is a function of (weights, optimizer state, counters, batch) only: an agent that has just
    taken k consecutive learn steps and its faithful clone (same weights / optimizer state / counters, but no left-over
    gradients or other hidden per-object state) must compute the same loss and the same new weights from the same batch."""
    spec = case["spec"]
    algo = spec["algo"]
    hp = dict(spec.get("hp", {}), tau=TAUS[case["tau"]])
    if algo in DELAYED:
        hp["policy_freq"] = case["policy_freq"]
    spec = dict(spec, hp=hp)
    site = f"C08/hidden_state/{algo}"
    try:
        A = ag.build(spec, hp_config=ag.make_hp_config(algo))
        for i in range(case["k"]):
            batch = make_batch(A, spec, A.batch_size, case["bseed"] + i, None)
            do_learn(A, spec, batch, case["lseed"] + i)
        B = A.clone()
    except Exception as e:
        ctx.label(f"setup-failed:{type(e).__name__}")
        return
    if T.diff(T.snapshot(A), T.snapshot(B), sections=("tensors", "opts", "arch")):
        ctx.label("clone-differs-skip")  # e.g. a learner that re-synchronises its target on copy (C01's allowance)
        return
    batch = make_batch(A, spec, A.batch_size, case["bseed"] + 100, None)
    with ctx.promised(site + "/learn"):
        la = do_learn(A, spec, batch, case["lseed"] + 100)
        lb = do_learn(B, spec, batch, case["lseed"] + 100)
    if algo == "Rainbow":
        same = abs(float(la[0]) - float(lb[0])) <= 1e-6 * max(1.0, abs(float(la[0])))
    else:
        same = repr(_round(la)) == repr(_round(lb))
    ctx.check(same, f"{site}/loss_depends_on_left_over_state",
              "an agent that just learned and its faithful clone return different losses for the same batch", a=repr(la)[:200], b=repr(lb)[:200],
              k=case["k"])
    d = T.diff(T.snapshot(A), T.snapshot(B), sections=("tensors",))
    if d:
        ctx.fail(f"{site}/update_depends_on_left_over_state", "an agent that just took k learn steps and its faithful clone compute "
                 f"different updates from the same batch (e.g. gradients left over from the previous step): {d[0]}", k=case["k"],
                 policy_freq=case["policy_freq"], diffs=d[:4])
    ctx.label(f"algo={algo}")
    ctx.label(f"k={case['k']}")
    if case["k"] >= 2:
        ctx.nontrivial({"a": algo, "o": spec.get("obs"), "k": case["k"], "pf": case["policy_freq"]})


# ----------------------------------------------------------------------------

@st.composite
def spec_strategy(draw, algos):
    algo = draw(st.sampled_from(engine.stratum(algos)))
    fam = draw(st.sampled_from(["vector", "image", "dict", "discrete", "multidiscrete"] if algo in ag.MULTI_OFF
                               else ["vector", "image", "dict", "tuple", "discrete", "multidiscrete", "multibinary"]))
    spec = {"algo": algo, "obs": fam, "obsv": draw(st.integers(0, 2)), "actv": draw(st.integers(0, 2)),
            "seed": draw(st.integers(0, 9999))}
    if algo in ("DDPG", "TD3"):
        spec["share"] = draw(st.booleans())
        spec["act"] = draw(st.sampled_from(["box", "box_asym", "box_perdim"]))
    if algo in ag.MULTI_OFF:
        spec["act"] = draw(st.sampled_from(["box", "discrete"]))
    return spec


@st.composite
def masking_strategy(draw, tier):
    n = draw(st.integers(2, 8))
    return {"spec": draw(spec_strategy(LEARNERS)), "n": n,
            "dones": draw(st.lists(st.integers(0, 1), min_size=n, max_size=n)),
            "ndones": draw(st.lists(st.integers(0, 1), min_size=n, max_size=n)),
            "mode": draw(st.sampled_from(["1step", "nstep", "per"])),
            "pseed": draw(st.integers(0, 999)), "bseed": draw(st.integers(0, 999)), "lseed": draw(st.integers(0, 999))}


@st.composite
def soft_strategy(draw, tier):
    one = st.one_of(st.tuples(st.just("none")), st.tuples(st.just("clone")), st.tuples(st.just("checkpoint"), st.integers(0, 1)),
                    st.tuples(st.just("learn"), st.integers(0, 99)), st.tuples(st.just("learn"), st.integers(0, 99)),
                    st.tuples(st.just("mutate"), st.sampled_from(hist.MUT_KINDS), st.integers(0, 999)))
    prefix = [list(p) for p in draw(st.lists(one, min_size=1, max_size=3))]
    return {"spec": draw(spec_strategy(LEARNERS)), "prefix": prefix, "tau": draw(st.integers(0, 3)),
            "policy_freq": draw(st.integers(1, 3)), "steps": draw(st.integers(1, 4)),
            "pseed": draw(st.integers(0, 999)), "bseed": draw(st.integers(0, 999)), "lseed": draw(st.integers(0, 999))}


@st.composite
def loss_strategy(draw, tier):
    n = draw(st.integers(2, 8))
    return {"spec": draw(spec_strategy(["DQN", "DDQN", "CQN", "DDPG", "TD3"])), "n": n,
            "gamma": draw(st.sampled_from([0.0, 0.5, 0.9, 0.99, 1.0])),
            "dones": draw(st.lists(st.integers(0, 1), min_size=n, max_size=n)),
            "pseed": draw(st.integers(0, 999)), "bseed": draw(st.integers(0, 999)), "lseed": draw(st.integers(0, 999))}


@st.composite
def stale_strategy(draw, tier):
    return {"spec": draw(spec_strategy(["CQN", "Rainbow", "DDPG", "TD3", "MADDPG", "MATD3", "DDPG", "TD3"])), "k": draw(st.integers(1, 5)),
            "tau": draw(st.integers(0, 3)), "policy_freq": draw(st.integers(1, 3)),
            "bseed": draw(st.integers(0, 999)), "lseed": draw(st.integers(0, 999))}


class _Renamed:
    """ctx proxy: C18's oracle run under C08 reports its verdicts as C08/rainbow/... signatures."""

    def __init__(self, ctx):
        self._ctx = ctx

    @staticmethod
    def _sig(sig):
        return "C08/rainbow/" + sig.split("/", 1)[1] if sig.startswith("C18/") else sig

    def fail(self, sig, msg, **kw):
        return self._ctx.fail(self._sig(sig), msg, **kw)

    def check(self, cond, sig, msg="", **kw):
        return self._ctx.check(cond, self._sig(sig), msg, **kw)

    def abort(self, sig, msg, **kw):
        return self._ctx.abort(self._sig(sig), msg, **kw)

    def promised(self, sig, **kw):
        return self._ctx.promised(self._sig(sig), **kw)

    def __getattr__(self, name):
        return getattr(self._ctx, name)


def run_rainbow_loss(case, ctx):
    """Rainbow's share of the loss clause: what learn() minimises (1-step, n-step, combined, prioritised) is the cross-entropy
    against the categorical projection of reward + gamma^n (1 - done) z - decided by C18's reference projection (the same
    oracle; C18 owns the projection's conservation laws, C08 only that THIS target is the one the loss uses, including
    rewards that push atoms onto / beyond the ends of the support)."""
    from vp.props import c18

    c18.run_priorities(case, _Renamed(ctx))


def rainbow_loss_strategy(tier):
    from vp.props import c18

    return c18.case_strategy("priorities")(tier)


PROPERTY = Property(
    id="C08",
    level="exploration",
    rule=("three generated obligations over DQN/double DQN/CQN/Rainbow(1-step,n-step,PER)/DDPG/TD3/MADDPG/MATD3 x observation families: "
          "(a) metamorphic terminal masking - two identically seeded agents learn from batches that differ only in next_obs of done rows, "
          "losses and all post-step weights must be identical; (b) soft-update law on every tensor the target computes with, after each "
          "learn step (policy steps for delayed learners), also straight after clone / each mutation kind / checkpoint load, targets first "
          "perturbed so online != target; (c) returned loss == recomputed Bellman loss. non-trivial = batch has done and not-done rows "
          "(a, c) or a policy step moved the online network (b); distinct by (algorithm, obs family, done pattern / prefix, tau, steps)"),
    obligations=[
        Obligation("terminal_masking", run_masking, strategy=masking_strategy,
                   examples={"quick": 35, "thorough": 400}, shards={"quick": 6, "thorough": 16},
                   shrink_budget={"quick": 60, "thorough": 300}),
        Obligation("soft_update_law", run_soft_update, strategy=soft_strategy,
                   examples={"quick": 35, "thorough": 400}, shards={"quick": 6, "thorough": 16},
                   shrink_budget={"quick": 60, "thorough": 300}),
        Obligation("no_hidden_state", run_stale, strategy=stale_strategy,
                   examples={"quick": 30, "thorough": 300}, shards={"quick": 4, "thorough": 16},
                   shrink_budget={"quick": 60, "thorough": 300}),
        Obligation("loss_differential", run_loss, strategy=loss_strategy,
                   examples={"quick": 50, "thorough": 500}, shards={"quick": 4, "thorough": 16},
                   shrink_budget={"quick": 60, "thorough": 300}),
        Obligation("multi_agent_loss", run_ma_loss, strategy=ma_loss_strategy,
                   examples={"quick": 40, "thorough": 400}, shards={"quick": 2, "thorough": 16},
                   shrink_budget={"quick": 40, "thorough": 300}),
        Obligation("rainbow_loss", run_rainbow_loss, strategy=rainbow_loss_strategy,
                   examples={"quick": 60, "thorough": 600}, shards={"quick": 3, "thorough": 16},
                   shrink_budget={"quick": 40, "thorough": 300}),
    ],
    assumptions=["batches have exactly agent.batch_size rows and the shapes the real buffers emit",
                 "target weights are observed through parameters, buffers and plain tensor attributes (tensordict to_module)",
                 "tolerances: soft-update 1e-6 absolute, loss 1e-4 relative"],
)
