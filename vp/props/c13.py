"""C13 - the vector environment rejects misuse and survives worker faults without hanging (fault enumeration)."""
from __future__ import annotations

import itertools
import os
import tempfile

import numpy as np
from hypothesis import strategies as st

from vp.core import isolate
from vp.core.engine import HarnessError, Obligation, Property, derive_seed
from vp.gen import pzenvs as pz
from vp.gen import pzoracle as po

CALL_BOUND_S = 30.0    # every single call returns within this (about 50x the expected time) - "without hanging"
CLOSE_SLACK_S = 20.0    # close() returns within longest injected sleep + this
SLEEP_S = 1.5           # "sleeps past the timeout"
TIMEOUT_S = 0.25        # the timeout handed to *_wait at the faulting call when a worker sleeps
WATCHDOG_S = 240.0
N_ENVS = 3
ROUND = ["reset", "step", "call", "set_attr", "step"]
EXCS = ["ValueError", "RuntimeError", "KeyError", "ZeroDivisionError", "ScriptedEnvError"]


def _spec(obs="vector", dt=0, agents=2, act="discrete"):
    return {"agents": agents, "obs": obs, "dt": dt, "act": act, "lens": [[1000]], "end": ["term"], "leave": [{}], "info": 1,
            "sleep_us": [[0]]}


def _guard(fn, bound):
    """('returned', value, s) | ('raised', exc, s) | ('hang', None, bound)"""
    try:
        v, dt = isolate.call_with_alarm(fn, bound)
        return "returned", v, dt
    except isolate.CallTimeout:
        return "hang", None, bound
    except Exception as e:  # noqa: BLE001 - classified by the caller
        return "raised", e, 0.0


def _alive(vec):
    out = []
    for p in vec.processes:
        try:
            out.append(bool(p.is_alive()))
        except Exception:  # noqa: BLE001
            out.append(False)
    return out


def _close_and_judge(F, vec, prefix, tag, bound, ctxinfo):
    """close() must return within `bound` and leave no worker alive"""
    isolate.progress("close")
    kind, val, dt = _guard(vec.close, bound)
    alive = _alive(vec)
    F.label(f"close:{kind}")
    if kind == "hang":
        F.fail(f"{prefix}/close_hangs/{tag}", f"close() did not return within {bound:.1f} s", workers_alive=alive, **ctxinfo)
    elif kind == "raised":
        F.fail(f"{prefix}/close_raises/{tag}", f"close() raised {type(val).__name__}: {str(val)[:200]} "
               f"(workers still alive afterwards: {alive})", exception=type(val).__name__, site=po.site_of(val), workers_alive=alive,
               **ctxinfo)
    elif any(alive):
        F.fail(f"{prefix}/worker_alive_after_close/{tag}", f"close() returned but worker processes are still alive: {alive}",
               workers_alive=alive, **ctxinfo)
    return kind, dt


# ---------------------------------------------------------------------------
# (b) fault grid
# ---------------------------------------------------------------------------

def _program(cmd, at):
    """rounds of ROUND up to and including the at-th occurrence (0-based) of cmd"""
    ops, n = [], 0
    for _ in range(8):
        for op in ROUND:
            ops.append(op)
            if op == cmd:
                if n == at:
                    return ops
                n += 1
    raise HarnessError("program construction")


def _dominant(kinds):
    """class of the injected fault set: kill (with anything) / raise / sleep / raise+sleep"""
    if "kill" in kinds:
        return "kill"
    return "+".join(sorted(set(kinds))) or "none"


def _fault_child(case):
    import warnings

    warnings.filterwarnings("ignore")
    from multiprocessing import TimeoutError as MpTimeoutError

    from agilerl.vector.pz_async_vec_env import AsyncPettingZooVecEnv

    F = po.Findings()
    P = "C13/fault"
    n = case["n"]
    cmd, at = case["cmd"], case["at"]
    fd, log = tempfile.mkstemp(prefix="vpc13_")
    os.close(fd)
    try:
        spec = _spec(case.get("obs", "vector"), case.get("dt", 0))
        spec["fault_log"] = log
        spec["faults"] = [dict(f, cmd=cmd, at=at, secs=f.get("secs", SLEEP_S)) for f in case["faults"]]
        TIMEOUT_S = case.get("timeout", globals()["TIMEOUT_S"])  # staggered-sleep cases use a longer deadline (less scheduling jitter)
        kinds = sorted(set(f["kind"] for f in case["faults"]))
        tag = "after_" + _dominant(kinds)
        raised_types = sorted(set(f["exc"] for f in case["faults"] if f["kind"] == "raise"))
        ref = pz.SequentialReference(spec, n)
        rng = np.random.default_rng(case.get("aseed", 0))
        try:
            vec = AsyncPettingZooVecEnv(pz.make_env_fns(spec, n))
        except Exception as e:  # noqa: BLE001
            F.label(f"setup-failed:{type(e).__name__}")
            return F.out(delivered=None)
        ops = _program(cmd, at)
        calls = {"call": 0, "set_attr": 0}
        info = {"cmd": cmd, "at": at, "faults": case["faults"]}
        for j, op in enumerate(ops):
            faulting = j == len(ops) - 1
            use_timeout = faulting and "sleep" in kinds and op != "set_attr"
            bound = CALL_BOUND_S + (SLEEP_S if faulting and "sleep" in kinds else 0.0)
            isolate.progress(op)
            if op == "reset":
                seed = 3 + j
                want = ref.reset(seed=seed)
                if use_timeout:
                    fn = lambda: (vec.reset_async(seed=seed), vec.reset_wait(timeout=TIMEOUT_S))[1]
                else:
                    fn = lambda: vec.reset(seed=seed)
            elif op == "step":
                actions = pz.sample_actions(spec, n, rng)
                want = ref.step(actions)
                if use_timeout:
                    aslist = [[int(actions[a][i]) for a in ref.envs[0].possible_agents] for i in range(n)]
                    fn = lambda: (vec.step_async(aslist), vec.step_wait(timeout=TIMEOUT_S))[1]
                else:
                    fn = lambda: vec.step(actions)
            elif op == "call":
                want = [[i, j, calls["call"] + 1] for i in range(n)]
                calls["call"] += 1
                if use_timeout:
                    fn = lambda: (vec.call_async("ping", j), vec.call_wait(timeout=TIMEOUT_S))[1]
                else:
                    fn = lambda: vec.call("ping", j)
            else:
                want = None
                fn = lambda: vec.set_attr("knob", [10 * j + i for i in range(n)])
            if faulting and case.get("pending"):
                # issue the faulting call asynchronously and close() WITHOUT waiting for it: close() has to deal with the
                # pending call itself (workers may or may not have answered yet: `settle` seconds are given)
                import time as _time

                if op == "reset":
                    pend = lambda: vec.reset_async(seed=seed)
                elif op == "step":
                    aslist = [[int(actions[a][i]) for a in ref.envs[0].possible_agents] for i in range(n)]
                    pend = lambda: vec.step_async(aslist)
                else:
                    pend = lambda: vec.call_async("ping", j)
                k0, v0, _ = _guard(pend, CALL_BOUND_S)
                if k0 != "returned":
                    F.fail(f"{P}/async_issue_failed/{cmd}", f"{cmd}_async itself {k0}", **info)
                _time.sleep(case.get("settle", 0.0))
                tag = "with_failed_call_pending/" + _dominant(kinds)
                F.label("close-with-pending-faulted-call")
                break
            kind, val, dt = _guard(fn, bound)
            if not faulting:
                # a fault-free prefix: everything must simply work and equal the reference
                if kind == "hang":
                    F.items.append([f"{P}/prefix_call_hangs/{op}", f"{op} #{j} hung before any fault was injected", info, True])
                    break
                if kind == "raised":
                    F.exc(f"{P}/prefix/{op}", val, **info)
                    break
                if op == "reset":
                    po.compare_reset(F, f"{P}/prefix", vec, n, val, want, f"op {j}")
                elif op == "step":
                    po.compare_step(F, f"{P}/prefix", vec, n, val, want, None, f"op {j}")
                elif op == "call" and [list(x) for x in val] != want:
                    F.fail(f"{P}/prefix/call_result", "call('ping') returned something else than the sub-environments' results",
                           got=[list(x) for x in val], want=want)
                continue
            # ---- the faulting call --------------------------------------------
            F.label(f"fault-op-outcome:{'+'.join(kinds)}:{kind}" + (f":{type(val).__name__}" if kind == "raised" else ""))
            desc = dict(info, outcome=kind, exception=type(val).__name__ if kind == "raised" else None, elapsed_s=round(dt, 2))
            if kind == "hang":
                F.fail(f"{P}/call_hangs/{cmd}/{tag}", f"{cmd} did not return within {bound:.1f} s after the injected fault(s)", **desc)
            elif "kill" in kinds:
                pass  # the statement names no error type for a worker that dies; only 'no hang' and close() are promised
            else:
                ok_types = [pz.EXC_TYPES[t] for t in raised_types]
                timeout_expected = "sleep" in kinds and cmd != "set_attr"
                got_t = type(val) if kind == "raised" else None
                if kind == "raised" and got_t in ok_types:
                    pass
                elif kind == "raised" and timeout_expected and isinstance(val, MpTimeoutError):
                    pass
                elif kind == "returned" and not ok_types and not timeout_expected:
                    pass  # set_attr with a slow worker: nothing to report, it just takes longer
                elif ok_types and not timeout_expected:
                    cls = "exception_swallowed" if kind == "returned" else "exception_type_changed"
                    F.fail(f"{P}/{cls}/{cmd}", f"a sub-environment raised {raised_types} inside {cmd}; the caller saw "
                           f"{'a normal return' if kind == 'returned' else type(val).__name__ + ': ' + str(val)[:120]}", **desc)
                elif timeout_expected and not ok_types:
                    F.fail(f"{P}/timeout_not_reported/{cmd}", f"a worker slept {SLEEP_S}s, {cmd}_wait(timeout={TIMEOUT_S}) "
                           f"{'returned normally' if kind == 'returned' else 'raised ' + type(val).__name__} instead of "
                           "multiprocessing.TimeoutError", **desc)
                else:
                    F.fail(f"{P}/neither_timeout_nor_exception/{cmd}", f"one worker raised {raised_types} and another slept past the "
                           f"timeout; the caller saw {'a normal return' if kind == 'returned' else type(val).__name__}", **desc)
        # ---- close() in every case --------------------------------------------
        longest = SLEEP_S if "sleep" in kinds else 0.0
        _close_and_judge(F, vec, P, tag, longest + CLOSE_SLACK_S, info)
        with open(log) as f:
            lines = [ln.split() for ln in f.read().splitlines()]
        delivered = sorted(int(ln[0]) for ln in lines)
        F.label(f"grid-cmd={cmd}")
        F.label(f"grid-kinds={'+'.join(sorted(f['kind'] for f in case['faults']))}")
        F.label(f"grid-at={at}")
        if delivered == sorted(f["inst"] for f in case["faults"]):
            F.nontrivial = {"cmd": cmd, "at": at, "faults": case["faults"]}
        return F.out(delivered=delivered)
    finally:
        try:
            os.unlink(log)
        except OSError:
            pass


def run_fault(case, ctx):
    r = isolate.run_isolated(_fault_child, case, WATCHDOG_S)
    kinds = sorted(set(f["kind"] for f in case["faults"]))
    if r["status"] == "ok":
        res = r["result"]
        po.Findings.replay(res, ctx)
        # The generator's own sanity guard: a case in which NO injected fault reached its sub-environment tested nothing.
        # (With two faults the caller may legitimately stop at the first failure and close() the others before their fault
        # fires; with a pending call close() may win the race.  Those are not harness faults.)
        if (res.get("delivered") is not None and not res["delivered"] and not res["findings"] and not case.get("pending")):
            raise HarnessError(f"fault was not delivered: case={case} delivered={res['delivered']}")
        if r["leftover"]:
            ctx.label("processes-left-at-case-end(reaped)")
        return
    if r["status"] == "timeout":
        last = r["progress"][-1] if r["progress"] else "start"
        ctx.abort(f"C13/fault/case_hangs_in_{last}/after_{_dominant(kinds)}", f"the whole case exceeded the {WATCHDOG_S:.0f} s watchdog "
                  f"while in {last} (per-call alarms could not interrupt it)", calls=r["progress"][-6:])
        return
    raise HarnessError(f"C13 child crashed: {r['result']}")


def fault_grid(tier):
    seed = int(os.environ.get("VERIF_SEED", "1") or "1")
    cases = []
    for ci, cmd in enumerate(pz.COMMANDS):
        for at in range(3):
            for w in range(N_ENVS):
                for ki, kind in enumerate(("raise", "sleep", "kill")):
                    cases.append({"n": N_ENVS, "cmd": cmd, "at": at,
                                  "faults": [{"inst": w, "kind": kind, "exc": EXCS[(ci + at + w) % len(EXCS)]}]})
            for w1, w2 in itertools.combinations(range(N_ENVS), 2):
                for k1 in ("raise", "sleep", "kill"):
                    for k2 in ("raise", "sleep", "kill"):
                        cases.append({"n": N_ENVS, "cmd": cmd, "at": at,
                                      "faults": [{"inst": w1, "kind": k1, "exc": EXCS[(ci + at + w1) % len(EXCS)]},
                                                 {"inst": w2, "kind": k2, "exc": EXCS[(ci + at + w2 + 2) % len(EXCS)]}]})
    # staggered slow workers: a lower-index worker answers INSIDE the deadline T (after 0.7 T), a higher-index one AFTER it (1.4 T, but
    # less than 0.7 T + T): the deadline is a budget for the whole *_wait call, so this is a timeout - however the time is split
    for ci, cmd in enumerate(("reset", "step", "call")):
        for at in range(2):
            for w1, w2 in itertools.combinations(range(N_ENVS), 2):
                cases.append({"n": N_ENVS, "cmd": cmd, "at": at, "timeout": 1.0,
                              "faults": [{"inst": w1, "kind": "sleep", "exc": EXCS[0], "secs": 0.7},
                                         {"inst": w2, "kind": "sleep", "exc": EXCS[0], "secs": 1.4}]})
    # close() while the faulted call is still pending (never waited for)
    for ci, cmd in enumerate(("reset", "step", "call")):
        for at in range(2):
            for w in range(N_ENVS):
                for kind in ("raise", "sleep", "kill"):
                    for settle in (0.0, 0.6):
                        cases.append({"n": N_ENVS, "cmd": cmd, "at": at, "pending": True, "settle": settle,
                                      "faults": [{"inst": w, "kind": kind, "exc": EXCS[(ci + at + w) % len(EXCS)]}]})
    for idx, c in enumerate(cases):
        c["obs"] = pz.KINDS[idx % 4]
        c["dt"] = idx % 3
        c["aseed"] = idx
        if tier == "thorough" or derive_seed(seed, "C13grid", idx) % 3 == 0:
            yield c


# ---------------------------------------------------------------------------
# (c) close() after a call that failed in the PARENT between pipe reads (an agent left its episode: C12's KeyError)
# ---------------------------------------------------------------------------

def _cafc_child(case):
    import warnings

    warnings.filterwarnings("ignore")
    from agilerl.vector.pz_async_vec_env import AsyncPettingZooVecEnv

    F = po.Findings()
    P = "C13/close_after_failed_call"
    n = case["n"]
    spec = _spec(agents=case["agents"])
    spec["leave"] = [({"1": case["leave_t"]} if i == case["leaver"] else {}) for i in range(n)]
    rng = np.random.default_rng(0)
    try:
        vec = AsyncPettingZooVecEnv(pz.make_env_fns(spec, n))
        vec.reset(seed=1)
    except Exception as e:  # noqa: BLE001
        F.label(f"setup-failed:{type(e).__name__}")
        return F.out()
    failed = None
    for s in range(case["leave_t"] + 2):
        isolate.progress("step")
        actions = pz.sample_actions(spec, n, rng)
        kind, val, dt = _guard(lambda: vec.step(actions), CALL_BOUND_S)
        if kind == "hang":
            F.fail(f"{P}/call_hangs/step", f"step {s} did not return within {CALL_BOUND_S} s", case=case)
            failed = "hang"
            break
        if kind == "raised":
            failed = type(val).__name__  # whether step may raise here is C12's business; C13 promises close() in every case
            F.label(f"step-raised:{failed}@{po.site_of(val)}")
            break
    tag = f"after_step_raised_{failed}" if failed else "after_clean_steps"
    _close_and_judge(F, vec, P, tag, CLOSE_SLACK_S, {"case": case})
    if failed:
        F.nontrivial = case
    return F.out()


def run_cafc(case, ctx):
    r = isolate.run_isolated(_cafc_child, case, WATCHDOG_S)
    if r["status"] == "ok":
        po.Findings.replay(r["result"], ctx)
        return
    if r["status"] == "timeout":
        last = r["progress"][-1] if r["progress"] else "start"
        ctx.abort(f"C13/close_after_failed_call/case_hangs_in_{last}", f"the case exceeded the {WATCHDOG_S:.0f} s watchdog", calls=r["progress"][-6:])
        return
    raise HarnessError(f"C13 child crashed: {r['result']}")


def cafc_cases(tier):
    for n in (1, 2, 3):
        for leaver in range(n):
            for leave_t in ((1, 2) if tier == "thorough" else (1,)):
                for agents in ((2, 3) if tier == "thorough" else (2,)):
                    yield {"n": n, "leaver": leaver, "leave_t": leave_t, "agents": agents}


# ---------------------------------------------------------------------------
# (a) protocol sequences: out-of-order calls, use after close
# ---------------------------------------------------------------------------

ASYNC = {"reset_async": "reset", "step_async": "step", "call_async": "call"}
WAIT = {"reset_wait": "reset", "step_wait": "step", "call_wait": "call"}
SYNC = {"reset": "reset", "step": "step", "call": "call"}
OPS = list(ASYNC) + list(WAIT) + list(SYNC) + ["set_attr", "get_attr", "close"]


def _proto_child(case):
    import warnings

    warnings.filterwarnings("ignore")
    from gymnasium.error import AlreadyPendingCallError, ClosedEnvironmentError, NoAsyncCallError

    from agilerl.vector.pz_async_vec_env import AsyncPettingZooVecEnv

    F = po.Findings()
    P = "C13/protocol"
    n = case["n"]
    spec = _spec(case["obs"], case["dt"], case["agents"], case["act"])
    ref = pz.SequentialReference(spec, n)
    rng = np.random.default_rng(case["aseed"])
    try:
        vec = AsyncPettingZooVecEnv(pz.make_env_fns(spec, n), copy=case["copy"])
    except Exception as e:  # noqa: BLE001
        F.label(f"setup-failed:{type(e).__name__}")
        return F.out()
    agents = ref.envs[0].possible_agents
    state, closed, has_reset = "default", False, False
    pending = None
    ncall = 0
    knob = [0] * n
    misuse_seen, recovered = set(), False
    last_misuse_at = None

    def as_lists(actions):
        return [[(int(actions[a][i]) if np.ndim(actions[a][i]) == 0 else actions[a][i]) for a in agents] for i in range(n)]

    for j, (op, arg) in enumerate(case["ops"]):
        if op in ("step_async", "step") and state == "default" and not closed and not has_reset:
            op = "reset_async" if op == "step_async" else "reset"  # stepping before the first reset is outside the domain
        isolate.progress(op)
        expect_err, expect_name = None, None
        if closed and op != "close":
            expect_err, expect_name = ClosedEnvironmentError, "ClosedEnvironmentError"
        elif op in ASYNC or op in SYNC or op in ("set_attr", "get_attr"):
            if state != "default":
                expect_err, expect_name = AlreadyPendingCallError, "AlreadyPendingCallError"
        elif op in WAIT and state != WAIT[op]:
            expect_err, expect_name = NoAsyncCallError, "NoAsyncCallError"
        what = ASYNC.get(op) or WAIT.get(op) or SYNC.get(op) or op
        new_pending = None
        if op in ("reset_async", "reset"):
            seed = None if arg % 4 == 0 else arg
            if expect_err is None:
                new_pending = ("reset", ref.reset(seed=seed))
            fn = (lambda: vec.reset_async(seed=seed)) if op == "reset_async" else (lambda: vec.reset(seed=seed))
        elif op in ("step_async", "step"):
            actions = pz.sample_actions(spec, n, rng)
            if expect_err is None:
                new_pending = ("step", ref.step(actions))
            fn = (lambda: vec.step_async(as_lists(actions))) if op == "step_async" else (lambda: vec.step(actions))
        elif op in ("call_async", "call"):
            if expect_err is None:
                ncall += 1
                new_pending = ("call", [[i, arg, ncall] for i in range(n)])
            fn = (lambda: vec.call_async("ping", arg)) if op == "call_async" else (lambda: vec.call("ping", arg))
        elif op in WAIT:
            timeout = None if arg % 2 == 0 else 10.0
            fn = {"reset_wait": lambda: vec.reset_wait(timeout=timeout), "step_wait": lambda: vec.step_wait(timeout=timeout),
                  "call_wait": lambda: vec.call_wait(timeout=timeout)}[op]
        elif op == "set_attr":
            values = [arg + i for i in range(n)] if arg % 2 else arg
            fn = lambda: vec.set_attr("knob", values)
        elif op == "get_attr":
            fn = lambda: vec.get_attr("knob")
        else:
            fn = vec.close
        kind, val, dt = _guard(fn, CALL_BOUND_S)
        where = f"op {j} {op} while {'closed' if closed else state}"
        if kind == "hang":
            F.items.append([f"{P}/call_hangs/{op}_while_{'closed' if closed else state}", f"{op} did not return within {CALL_BOUND_S} s",
                            {"where": where, "ops": case["ops"][: j + 1]}, True])
            return F.out()
        if expect_err is not None:
            misuse_seen.add(expect_name)
            last_misuse_at = j
            if kind == "returned":
                F.items.append([f"{P}/misuse_not_rejected/{what}_{'wait' if op in WAIT else 'call'}_while_{'closed' if closed else state}",
                                f"{op} while {'closed' if closed else 'a ' + state + ' call is pending' if state != 'default' else 'nothing is pending'} "
                                f"returned normally; documented: {expect_name}", {"where": where}, True])
                return F.out()
            if not isinstance(val, expect_err):
                F.fail(f"{P}/wrong_error/{expect_name}", f"{where}: raised {type(val).__name__}: {str(val)[:150]}; documented: {expect_name}",
                       where=where, got=type(val).__name__)
            continue  # the model state is unchanged: the environment must still be usable
        # ---- a legal call -------------------------------------------------------
        if kind == "raised":
            F.exc(f"{P}/legal_call/{op}" + ("/after_misuse" if last_misuse_at is not None else ""), val, where=where)
            return F.out()
        if last_misuse_at is not None and not closed:
            recovered = True
        if op == "close":
            closed = True
            alive = _alive(vec)
            F.label(f"closed-while:{state}")
            if any(alive):
                F.fail(f"{P}/worker_alive_after_close/while_{state}", f"close() returned but workers are alive: {alive}", where=where)
            if dt > CLOSE_SLACK_S:
                F.fail(f"{P}/close_slow/while_{state}", f"close() took {dt:.1f} s", where=where)
            state, pending = "default", None
            continue
        if op in ASYNC:
            state, pending = ASYNC[op], new_pending[1]
            continue
        if op in SYNC:
            result_kind, want = new_pending
        elif op in WAIT:
            result_kind, want = WAIT[op], pending
            state, pending = "default", None
        elif op == "set_attr":
            knob = list(values) if isinstance(values, list) else [values] * n
            continue
        else:
            if list(val) != knob:
                F.fail(f"{P}/result/attr_value", f"get_attr('knob') returned {list(val)}, set_attr had stored {knob}", where=where)
            continue
        R = f"{P}/result"
        if result_kind == "reset":
            has_reset = True
            po.compare_reset(F, R, vec, n, val, want, where)
        elif result_kind == "step":
            po.compare_step(F, R, vec, n, val, want, None, where)
        elif [list(x) for x in val] != want:
            F.fail(f"{R}/call_result", f"call('ping') returned {[list(x) for x in val]}, the sub-environments return {want}", where=where)
    if not closed:
        _close_and_judge(F, vec, P, f"while_{state}", CLOSE_SLACK_S, {"ops": case["ops"]})
        F.label(f"closed-while:{state}")
    for m in sorted(misuse_seen):
        F.label(f"misuse:{m}")
    if recovered:
        F.label("legal-call-after-misuse")
    if misuse_seen:
        F.nontrivial = {"n": n, "ops": case["ops"]}
    return F.out()


def run_proto(case, ctx):
    r = isolate.run_isolated(_proto_child, case, WATCHDOG_S)
    if r["status"] == "ok":
        po.Findings.replay(r["result"], ctx)
        return
    if r["status"] == "timeout":
        last = r["progress"][-1] if r["progress"] else "start"
        ctx.abort(f"C13/protocol/case_hangs_in_{last}", f"the case exceeded the {WATCHDOG_S:.0f} s watchdog while in {last}",
                  calls=r["progress"][-6:])
        return
    raise HarnessError(f"C13 child crashed: {r['result']}")


@st.composite
def proto_strategy(draw, tier):
    ops = draw(st.lists(st.tuples(st.sampled_from(OPS), st.integers(0, 9)), min_size=1, max_size=10))
    return {"n": draw(st.integers(1, 3)), "agents": draw(st.integers(1, 2)), "obs": draw(st.sampled_from(pz.KINDS)),
            "dt": draw(st.integers(0, 5)), "act": draw(st.sampled_from(["discrete", "box"])), "copy": draw(st.booleans()),
            "aseed": draw(st.integers(0, 999)), "ops": [list(o) for o in ops]}


PROPERTY = Property(
    id="C13",
    level="fault_enumeration",
    rule=("(a) generated sequences of <= 10 interface calls over reset/step/call (sync, *_async, *_wait), set_attr, get_attr, close and "
          "use-after-close on AsyncPettingZooVecEnv over the scripted env family: every out-of-order call must raise the documented "
          "error (NoAsyncCallError / AlreadyPendingCallError / ClosedEnvironmentError), every legal call - also after misuse - must "
          "return the sequential reference's results, close() must return and leave no worker alive; non-trivial = the sequence "
          "contains at least one misuse. (b) the grid command in {reset, step, call, set_attr} x worker index (3 workers) x occurrence "
          "number 0..2 of that command x fault in {raise one of 5 exception types, sleep past the timeout, SIGKILL}, alone and for every "
          "pair of workers x every pair of fault kinds (432 cases; quick tier: a seeded third): the fault-free prefix must equal the "
          "reference, the faulting call must surface the sub-environment's exception type / multiprocessing.TimeoutError and return "
          "within 15 s, close() must return within longest sleep + 5 s with no worker alive; every grid point is non-trivial when the "
          "scripted env's fault log confirms delivery. (c) close() after a step that failed in the parent process because an agent had "
          "left its episode (n x which env x when). Each case runs in a child process in its own session under a watchdog."),
    obligations=[
        Obligation("fault_grid", run_fault, enumerate=fault_grid, shards={"quick": 12, "thorough": 16},
                   exhaustive_note="thorough tier: all 432 points of command x worker (pairs) x occurrence x fault kind (pairs)"),
        Obligation("close_after_failed_call", run_cafc, enumerate=cafc_cases, shards={"quick": 3, "thorough": 8}),
        Obligation("protocol_sequences", run_proto, strategy=proto_strategy,
                   examples={"quick": 25, "thorough": 130}, shards={"quick": 4, "thorough": 16},
                   shrink_budget={"quick": 12, "thorough": 60}),
    ],
    assumptions=["wall-clock bounds are part of this property: 15 s per call (+ injected sleep), close() within longest sleep + 5 s",
                 "for a SIGKILLed worker the statement names no error type for the faulting call: only 'does not hang', then close()",
                 "with two simultaneous faults any of the injected exception types, or TimeoutError if a worker sleeps, is accepted",
                 "usability after a timeout or a worker fault is not asserted (only close())",
                 "stepping before the first reset is outside the domain (such ops are mapped onto reset)"],
    wanted_labels=["misuse:NoAsyncCallError", "misuse:AlreadyPendingCallError", "misuse:ClosedEnvironmentError",
                   "legal-call-after-misuse", "grid-cmd=reset", "grid-cmd=step", "grid-cmd=call", "grid-cmd=set_attr"],
)
