"""C16 - stochastic policies report the true log-probability and entropy of their actions.

* ``actor_density``: directly on ``StochasticActor`` / ``EvolvableDistribution``: support, log-probability and entropy against
  float64 numpy densities computed from the network's own logits / mean / log_std; masks; repeated draws; re-evaluation of a
  STORED action after other forward passes and after the weights changed.
* ``ppo_reeval`` / ``ippo_reeval``: the same through the learners: what ``get_action`` reports for the action it returns, what
  ``evaluate_actions`` (PPO) reports for the same observations and actions, and what the re-evaluation inside a real
  ``learn()`` call reports for the stored actions (observed by wrapping ``PPO.evaluate_actions`` /
  ``StochasticActor.action_log_prob`` in the harness process) before and after the weights moved.
"""
from __future__ import annotations

import math

import numpy as np
import torch
from gymnasium import spaces
from hypothesis import strategies as st

from vp.core.engine import HarnessError, Obligation, Property, Violation, _AbortCase, site_of
from vp.gen import agents as ag

LOG2PI = math.log(2.0 * math.pi)
ZERO_PROB_LOG = math.log(1e-30)


# ---------------------------------------------------------------------------------------------------------------
# action spaces from JSON
# ---------------------------------------------------------------------------------------------------------------

def make_act(d):
    k = d["k"]
    if k == "discrete":
        return spaces.Discrete(d["n"])
    if k == "multidiscrete":
        return spaces.MultiDiscrete(list(d["nvec"]))
    if k == "multibinary":
        return spaces.MultiBinary(d["n"])
    if k == "box":
        n = d["n"]
        b = d.get("bounds", "sym")
        if b == "sym":
            lo, hi = -np.ones(n), np.ones(n)
        elif b == "asym":
            lo, hi = np.full(n, -0.5), np.full(n, 2.0)
        elif b == "perdim":
            lo = -1.0 - np.arange(n)
            hi = 0.5 + 2.0 * np.arange(n)
        else:
            raise HarnessError(b)
        return spaces.Box(lo.astype(np.float32), hi.astype(np.float32), dtype=np.float32)
    raise HarnessError(k)


def act_kind(d, squash=False, single=True):
    """semantic class of the action space: kind, '1' when it has a single component (only where the learners' handling of
    stored action arrays can tell the difference: ``single``), '+squash'"""
    k = d["k"]
    if k == "discrete":
        return "discrete"
    n = len(d["nvec"]) if k == "multidiscrete" else d["n"]
    return k + ("1" if n == 1 and single else "") + ("+squash" if squash and k == "box" else "")


def sig_for(level, d, squash, site, clause):
    """Signature of a disagreement.  ``level``: actor | PPO | IPPO; ``site``: forward | get_action | evaluate_actions |
    learn_reeval | reeval; ``clause``: log_prob | entropy | raises | support ...  Three input classes get a signature of
    their own because ONE mechanism breaks every clause on them:
    * re-evaluating a stored action of a squashed policy (any level, any clause),
    * stored actions of a space with a single component going through learn() (their component axis is dropped),
    * PPO handing out Box(1,) actions with an extra axis, then fed back to evaluate_actions as returned."""
    kind = act_kind(d, squash, single=False)
    single = act_kind(d, squash) != kind
    if squash and d["k"] == "box" and site in ("reeval", "evaluate_actions", "learn_reeval"):
        return "C16/squash/reeval_stored_action"
    if single and site == "learn_reeval":
        return f"C16/{level}/learn_reeval/single_component_action_space"
    if single and d["k"] == "box" and level == "PPO" and site == "evaluate_actions":
        return "C16/PPO/evaluate_actions/box1_action_as_returned"
    return f"C16/{level}/{kind}/{site}/{clause}"


def flat_logit_dim(space):
    return int(spaces.flatdim(space))


# ---------------------------------------------------------------------------------------------------------------
# reference densities (float64 numpy), from the network's own outputs
# ---------------------------------------------------------------------------------------------------------------

def _log_softmax(x):
    m = np.max(x, axis=-1, keepdims=True)
    z = x - m
    return z - np.log(np.sum(np.exp(z), axis=-1, keepdims=True))


def _cat_terms(logits, mask):
    """log-probabilities (B, n) with masked entries at -inf, entropy (B,)"""
    l = np.where(mask, logits, -np.inf) if mask is not None else logits
    ls = _log_softmax(l)
    p = np.exp(ls)
    ent = -np.sum(np.where(p > 0, p * np.where(p > 0, ls, 0.0), 0.0), axis=-1)
    return ls, ent


def _softplus(x):
    return np.logaddexp(0.0, x)


class RefDist:
    """The distribution the statement talks about: Categorical / independent Categoricals / independent Bernoullis /
    diagonal Normal (optionally tanh-squashed) with the parameters the network itself outputs."""

    def __init__(self, space, logits, log_std=None, mask=None, squash=False):
        self.space = space
        self.logits = np.asarray(logits, dtype=np.float64)
        self.B = self.logits.shape[0]
        self.mask = None if mask is None else np.asarray(mask).reshape(self.logits.shape).astype(bool)
        self.squash = bool(squash) and isinstance(space, spaces.Box)
        self.log_std = None if log_std is None else np.broadcast_to(np.asarray(log_std, dtype=np.float64).reshape(1, -1), self.logits.shape)
        if isinstance(space, spaces.MultiDiscrete):
            self.offsets = np.concatenate([[0], np.cumsum(space.nvec)]).astype(int)

    # -- per-component terms ------------------------------------------------------------------------------------
    def _components(self):
        sp_ = self.space
        if isinstance(sp_, spaces.Discrete):
            return [_cat_terms(self.logits, self.mask)]
        out = []
        for j in range(len(sp_.nvec)):
            a, b = self.offsets[j], self.offsets[j + 1]
            out.append(_cat_terms(self.logits[:, a:b], None if self.mask is None else self.mask[:, a:b]))
        return out

    def entropy(self):
        sp_ = self.space
        if isinstance(sp_, (spaces.Discrete, spaces.MultiDiscrete)):
            return sum(e for _, e in self._components())
        if isinstance(sp_, spaces.MultiBinary):
            l = np.where(self.mask, self.logits, -np.inf) if self.mask is not None else self.logits
            lp1, lp0 = -_softplus(-l), -_softplus(l)
            p1 = np.exp(lp1)
            t = np.where(p1 > 0, p1 * np.where(p1 > 0, lp1, 0.0), 0.0) + np.where(p1 < 1, (1 - p1) * np.where(p1 < 1, lp0, 0.0), 0.0)
            return -np.sum(t, axis=-1)
        if self.squash:
            return None  # no closed form
        return np.sum(0.5 + 0.5 * LOG2PI + self.log_std, axis=-1)

    def log_prob(self, action):
        """action: (B, ...) in the space's own encoding (Box squash: the value in (-1, 1) BEFORE scaling to the bounds).
        Returns (log_prob (B,), conditioning (B,)) - the second is the numerical slack the float32 action itself implies."""
        sp_ = self.space
        a = np.asarray(action)
        zero = np.zeros(self.B)
        if isinstance(sp_, spaces.Discrete):
            ls, _ = self._components()[0]
            return ls[np.arange(self.B), a.reshape(self.B).astype(int)], zero
        if isinstance(sp_, spaces.MultiDiscrete):
            a = a.reshape(self.B, -1).astype(int)
            tot = np.zeros(self.B)
            for j, (ls, _) in enumerate(self._components()):
                tot = tot + ls[np.arange(self.B), a[:, j]]
            return tot, zero
        if isinstance(sp_, spaces.MultiBinary):
            a = a.reshape(self.B, -1).astype(np.float64)
            l = np.where(self.mask, self.logits, -np.inf) if self.mask is not None else self.logits
            lp1, lp0 = -_softplus(-l), -_softplus(l)
            return np.sum(np.where(a > 0.5, lp1, lp0), axis=-1), zero
        a = a.reshape(self.B, -1).astype(np.float64)
        sig = np.exp(self.log_std)
        if not self.squash:
            z = (a - self.logits) / sig
            return np.sum(-0.5 * z * z - self.log_std - 0.5 * LOG2PI, axis=-1), np.sum(np.abs(z) / sig, axis=-1) * 1e-6 * (1 + np.abs(a).max())
        one_m = np.clip(1.0 - a * a, 1e-300, None)
        u = np.arctanh(np.clip(a, -1 + 1e-16, 1 - 1e-16))
        z = (u - self.logits) / sig
        lp = np.sum(-0.5 * z * z - self.log_std - 0.5 * LOG2PI, axis=-1) - np.sum(np.log(one_m), axis=-1)
        # float32 action: the value in (-1, 1) is only known up to da -> du = da/(1-a^2); implementation guards the correction
        # with +1e-6.  da: one float32 rounding of tanh(x) plus one of the action scaled to the bounds (ulp of the largest bound,
        # mapped back by the half-width) - e.g. bounds (-0.5, 2): 2.4e-7 / 1.25 instead of the 1.2e-7 of a unit interval
        lo, hi = self.space.low.astype(np.float64).reshape(-1), self.space.high.astype(np.float64).reshape(-1)
        da = 1.2e-7 * (1.0 + np.maximum(1.0, np.maximum(np.abs(lo), np.abs(hi))) / np.maximum((hi - lo) / 2.0, 1e-12))
        cond = np.sum((np.abs(z) / sig + 2 * np.abs(a)) * da / one_m + 1e-6 / one_m, axis=-1)
        return lp, cond

    def scale_jacobian(self):
        """log |d scaled / d tanh| summed over dimensions (constant): a density w.r.t. the scaled action differs by this"""
        return float(np.sum(np.log((self.space.high.astype(np.float64) - self.space.low.astype(np.float64)) / 2.0)))

    def unscale(self, scaled):
        lo, hi = self.space.low.astype(np.float64), self.space.high.astype(np.float64)
        return 2.0 * (np.asarray(scaled, dtype=np.float64).reshape(self.B, -1) - lo) / (hi - lo) - 1.0

    def legal(self, action):
        """(B,) bool: action inside the support (space membership and mask)"""
        sp_ = self.space
        a = np.asarray(action)
        if isinstance(sp_, spaces.Discrete):
            a = a.reshape(self.B)
            ok = (a >= 0) & (a < sp_.n) & (a == np.round(a))
            if self.mask is not None:
                ok &= self.mask[np.arange(self.B), np.clip(a.astype(int), 0, sp_.n - 1)]
            return ok
        if isinstance(sp_, spaces.MultiDiscrete):
            a = a.reshape(self.B, -1)
            ok = np.ones(self.B, dtype=bool)
            for j, n in enumerate(sp_.nvec):
                ok &= (a[:, j] >= 0) & (a[:, j] < n) & (a[:, j] == np.round(a[:, j]))
                if self.mask is not None:
                    ok &= self.mask[np.arange(self.B), self.offsets[j] + np.clip(a[:, j].astype(int), 0, n - 1)]
            return ok
        if isinstance(sp_, spaces.MultiBinary):
            a = a.reshape(self.B, -1)
            ok = np.all((a == 0) | (a == 1), axis=-1)
            if self.mask is not None:
                ok &= np.all((a == 0) | self.mask, axis=-1)
            return ok
        a = a.reshape(self.B, -1).astype(np.float64)
        ok = np.all(np.isfinite(a), axis=-1)
        if self.squash:
            ok &= np.all((a >= sp_.low - 1e-6) & (a <= sp_.high + 1e-6), axis=-1)
        return ok

    def a_masked_action(self, sampled):
        """(action (B, ...), rows) an action that the mask forbids on ``rows`` (sampled action elsewhere)"""
        sp_ = self.space
        bad = np.array(sampled, copy=True)
        rows = []
        if self.mask is None:
            return bad, rows
        for i in range(self.B):
            if isinstance(sp_, spaces.Discrete):
                ill = np.flatnonzero(~self.mask[i])
                if len(ill):
                    bad.reshape(self.B)[i] = ill[0]
                    rows.append(i)
            elif isinstance(sp_, spaces.MultiDiscrete):
                for j in range(len(sp_.nvec)):
                    ill = np.flatnonzero(~self.mask[i, self.offsets[j]:self.offsets[j + 1]])
                    if len(ill):
                        bad.reshape(self.B, -1)[i, j] = ill[0]
                        rows.append(i)
                        break
            elif isinstance(sp_, spaces.MultiBinary):
                ill = np.flatnonzero(~self.mask[i])
                if len(ill):
                    bad.reshape(self.B, -1)[i, ill[0]] = 1
                    rows.append(i)
        return bad, rows


def tol_for(want, cond, base=1e-5):
    return base + 2e-6 * np.abs(want) + cond


def net_params(actor, obs_t):
    """the network's own outputs for prepared observations: head logits (float64) and log_std (or None)"""
    with torch.no_grad():
        latent = actor.extract_features(obs_t)
        logits = actor.head_net.wrapped(latent).double().numpy()
        log_std = actor.head_net.log_std.detach().double().numpy().copy() if isinstance(actor.action_space, spaces.Box) else None
    return logits, log_std


def draw_mask(space, B, rng, density):
    """legal-action mask (B, flatdim) with at least one legal action per categorical component"""
    n = flat_logit_dim(space)
    m = rng.uniform(size=(B, n)) < density
    if isinstance(space, spaces.Discrete):
        comps = [(0, n)]
    elif isinstance(space, spaces.MultiDiscrete):
        off = np.concatenate([[0], np.cumsum(space.nvec)]).astype(int)
        comps = [(off[j], off[j + 1]) for j in range(len(space.nvec))]
    else:
        comps = []  # MultiBinary: "bit may be set"; bit = 0 is always possible
    for i in range(B):
        for a, b in comps:
            if not m[i, a:b].any():
                m[i, a + rng.integers(0, b - a)] = True
    return m


def perturb(module, seed, scale, log_std_scale=0.0):
    g = torch.Generator().manual_seed(seed)
    with torch.no_grad():
        for name, p in module.named_parameters():
            if not p.is_floating_point():
                continue
            s = log_std_scale if name.endswith("log_std") else scale
            if s:
                p.add_(torch.randn(p.shape, generator=g) * s)


def _call(ctx, sig, fn, **details):
    try:
        return True, fn()
    except (Violation, _AbortCase, HarnessError, KeyboardInterrupt):
        raise
    except Exception as e:  # noqa: BLE001 - the statement quantifies over these calls
        ctx.fail(sig, f"{type(e).__name__}: {str(e)[:200]}", site=site_of(e), **details)
        return False, None


def _np(x):
    return x.detach().cpu().numpy() if isinstance(x, torch.Tensor) else np.asarray(x)


def check_lp(ctx, sig, got, want, cond, what, details, base=1e-5):
    """got: (B,) reported log-probabilities; want (B,) reference (may hold -inf)"""
    got = np.asarray(got, dtype=np.float64)
    if got.shape != want.shape:
        if got.size == want.size:
            got = got.reshape(want.shape)
        else:
            ctx.fail(sig, f"{what}: reported log-probabilities have shape {got.shape}, one per row expected {want.shape}",
                     **details)
            return False
    fin = np.isfinite(want)
    bad = ~(np.abs(got - np.where(fin, want, 0.0)) <= tol_for(np.where(fin, want, 0.0), cond, base)) & fin
    if bad.any():
        i = int(np.flatnonzero(bad)[0])
        ctx.fail(sig, f"{what}: reported log-probability differs from the density of that action under the network's own parameters",
                 row=i, got=float(got[i]), want=float(want[i]), n_bad=int(bad.sum()), rows=int(len(want)), **details)
        return False
    return True


def check_entropy(ctx, sig, got, want, what, details):
    if want is None or got is None:
        return True
    got = np.asarray(_np(got), dtype=np.float64)
    if got.size != want.size:
        ctx.fail(sig, f"{what}: entropy has shape {got.shape}, one per row expected", **details)
        return False
    got = got.reshape(want.shape)
    bad = ~(np.abs(got - want) <= 1e-5 + 1e-5 * np.abs(want))
    if bad.any():
        i = int(np.flatnonzero(bad)[0])
        ctx.fail(sig, f"{what}: reported entropy differs from the entropy of the distribution (summed over independent components)",
                 row=i, got=float(got[i]), want=float(want[i]), **details)
        return False
    return True


# ---------------------------------------------------------------------------------------------------------------
# obligation 1: directly on the actor
# ---------------------------------------------------------------------------------------------------------------

def build_actor(case):
    from agilerl.networks.actors import StochasticActor

    space = make_act(case["act"])
    obs_space = spaces.Box(-1.0, 1.0, (case["obs_dim"],), np.float32)
    ag.seed_all(case["wseed"])
    actor = StochasticActor(obs_space, space,
                            encoder_config={"hidden_size": [8], "activation": "ReLU", "min_mlp_nodes": 4, "max_mlp_nodes": 64},
                            head_config={"hidden_size": [8], "activation": "ReLU", "min_mlp_nodes": 4, "max_mlp_nodes": 64},
                            latent_dim=8, action_std_init=case["std_init"], squash_output=bool(case["squash"]))
    perturb(actor, case["wseed"], case["wscale"])
    mut = case.get("mut")
    if mut:
        # the policy networks are evolvable: "every network weights" includes networks that went through an architecture mutation
        # (the latent mutations re-create encoder AND distribution head inside the actor)
        methods = list(actor.mutation_methods)
        name = methods[case["wseed"] % len(methods)] if mut == "any" else mut
        if name in methods:
            np.random.seed(case["wseed"] % (2 ** 32))
            getattr(actor, name)()
            case["_mutated"] = name
    return actor, space


def run_actor(case, ctx):
    try:
        actor, space = build_actor(case)
    except Exception as e:  # noqa: BLE001 - construction is not what C16 promises
        ctx.label(f"setup-failed:{type(e).__name__}")
        return
    squash = bool(case["squash"]) and isinstance(space, spaces.Box)
    if case.pop("_mutated", None):
        ctx.label("actor-after-architecture-mutation")
    kind = act_kind(case["act"], squash, single=False)
    single = act_kind(case["act"], squash) != kind
    B = case["B"]
    rng = np.random.default_rng(case["oseed"])
    obs = torch.as_tensor(rng.normal(size=(B, case["obs_dim"])).astype(np.float32))
    mask = None
    if case["mask"] and not isinstance(space, spaces.Box):
        mask = draw_mask(space, B, rng, case["mask_density"])
    mtag = "+mask" if mask is not None else ""
    base = f"C16/actor/{kind}{mtag}"
    details = {"act": case["act"], "B": B, "squash": squash, "std_init": case["std_init"], "masked": mask is not None}
    mask_arg = None
    if mask is not None:
        if case["mask_form"] == "object":  # what a gymnasium vector env puts into infos: object array of per-env masks
            mask_arg = np.empty(B, dtype=object)
            for i in range(B):
                mask_arg[i] = mask[i].astype(np.int8)
        else:
            mask_arg = {"numpy": mask.astype(np.int8), "bool": mask, "tensor": torch.as_tensor(mask)}[case["mask_form"]]

    def ref_now():
        logits, log_std = net_params(actor, obs)
        return RefDist(space, logits, log_std, mask, squash)

    def tanh_space(ref, action_np):
        """the action in the encoding log_prob is defined on (squash: undo the scaling to the bounds)"""
        return ref.unscale(action_np) if squash else action_np

    def lp_matches(ref, got, action_np):
        """squash: a density over the scaled action (extra constant Jacobian) is the same distribution - accepted too"""
        want, cond = ref.log_prob(tanh_space(ref, action_np))
        got = np.asarray(got, dtype=np.float64).reshape(-1)
        if got.shape != want.shape:
            return False, want, cond
        tol = tol_for(want, cond)
        ok = np.abs(got - want) <= tol
        if squash:
            ok |= np.abs(got - (want - ref.scale_jacobian())) <= tol
        usable = np.isfinite(want) & (cond < 1e-3)
        return bool(np.all(ok | ~usable)), want, cond

    # ---- the action returned, its log-probability and the entropy --------------------------------------------
    torch.manual_seed(case["tseed"])
    ok, out = _call(ctx, f"{base}/forward/raises", lambda: actor(obs, mask_arg) if mask is not None else actor(obs), **details)
    ctx.label(f"kind={kind}{mtag}")
    if single:
        ctx.label("single-component")
    ctx.label(f"std_init={case['std_init']}")
    if not ok:
        return
    action, lp, ent = out
    a1 = _np(action).copy()
    lp1 = _np(lp).astype(np.float64).reshape(-1) if lp is not None else None
    ref = ref_now()
    if a1.shape[0] != B:
        ctx.fail(f"{base}/support", f"action has shape {a1.shape} for {B} observation rows", **details)
        return
    legal = ref.legal(a1)
    if not legal.all():
        i = int(np.flatnonzero(~legal)[0])
        ctx.fail(f"{base}/support", "returned action is outside the support (space membership / mask / bounds of a squashed Box)",
                 row=i, action=a1[i].tolist() if a1[i].ndim else a1[i].item(),
                 mask=None if mask is None else mask[i].astype(int).tolist(), **details)
        return  # (only reached when that class is already known) nothing below is defined for an illegal action
    saturated = False
    if lp1 is None or lp1.size != B:
        ctx.fail(f"{base}/log_prob", f"log-probabilities of shape {None if lp is None else tuple(lp.shape)} for {B} rows", **details)
    elif legal.all():
        okm, want, cond = lp_matches(ref, lp1, a1)
        saturated = bool(np.any(cond >= 1e-3))
        if not okm:
            i = int(np.argmax(np.abs(lp1 - want) - tol_for(want, cond)))
            ctx.fail(f"{base}/log_prob", "reported log-probability is not the density of the returned action under the network's own parameters",
                     row=i, got=float(lp1[i]), want=float(want[i]), action=np.asarray(a1[i]).tolist(), **details)
    if squash:
        if ent is not None:
            ctx.label("squash-entropy-reported")
    else:
        if ent is None:
            ctx.fail(f"{base}/entropy", "no entropy reported", **details)
        else:
            check_entropy(ctx, f"{base}/entropy", ent, ref.entropy(), "forward", details)

    # ---- masked actions: zero probability, never sampled --------------------------------------------------------
    if mask is not None:
        bad_action, rows = ref.a_masked_action(a1)
        if rows:
            okb, blp = _call(ctx, f"{base}/masked_prob/raises",
                             lambda: actor.action_log_prob(torch.as_tensor(bad_action, dtype=action.dtype)), **details)
            if okb:
                blp = _np(blp).astype(np.float64).reshape(-1)
                worst = max(blp[r] for r in rows) if blp.size == B else 0.0
                ctx.check(blp.size == B and worst <= ZERO_PROB_LOG, f"{base}/masked_prob",
                          "an action the mask forbids is given non-zero probability (> 1e-30)", log_prob=float(worst), **details)
        for k in range(case["K"]):
            okk, o = _call(ctx, f"{base}/forward/raises", lambda: actor(obs, mask_arg), **details)
            if not okk:
                break
            lk = ref.legal(_np(o[0]))
            if not lk.all():
                i = int(np.flatnonzero(~lk)[0])
                ctx.fail(f"{base}/masked_sampled", "a masked action was sampled", draw=k, row=i,
                         action=np.asarray(_np(o[0])[i]).tolist(), mask=mask[i].astype(int).tolist(), **details)
                break
        ctx.label("masked-draws")

    # ---- re-evaluating the STORED action ----------------------------------------------------------------------
    stored = torch.as_tensor(a1.copy())
    stored_tanh = torch.as_tensor(ref.unscale(a1).astype(np.float32)) if squash else None
    # other forward passes in between (another batch, another size, no mask)
    obs2 = torch.as_tensor(rng.normal(size=(case["B2"], case["obs_dim"])).astype(np.float32))
    _call(ctx, f"{base}/forward/raises", lambda: actor(obs2), **details)
    phases = [("same_weights", None)]
    if case["wscale2"] > 0:
        phases.append(("new_weights", case["wscale2"]))
    for phase, scale in phases:
        if scale is not None:
            perturb(actor, case["wseed"] + 1, scale, log_std_scale=0.3 * scale if isinstance(space, spaces.Box) else 0.0)
        refp = ref_now()
        okf, _ = _call(ctx, f"{base}/forward/raises", lambda: actor(obs, mask_arg) if mask is not None else actor(obs), **details)
        if not okf:
            break
        cands = [("as_returned", stored)] + ([("unscaled_to_(-1,1)", stored_tanh)] if squash else [])
        verdicts = []
        for tag, act_t in cands:
            try:
                got = _np(actor.action_log_prob(act_t)).astype(np.float64).reshape(-1)
            except Exception as e:  # noqa: BLE001
                verdicts.append((tag, False, f"{type(e).__name__}: {str(e)[:120]}", None))
                continue
            okm, want, cond = lp_matches(refp, got, a1)
            verdicts.append((tag, okm, got.tolist()[:4], want.tolist()[:4]))
        if not any(v[1] for v in verdicts):
            ctx.fail(sig_for("actor", case["act"], squash, "reeval", "log_prob") + mtag,
                     "action_log_prob(stored action) after a fresh forward pass on the same observations is not the log-probability "
                     "of THAT action under the current parameters",
                     level="actor", phase=phase, tried=[{"passed": v[0], "got": v[2], "want": v[3]} for v in verdicts], **details)
        if phase == "same_weights" and lp1 is not None and lp1.size == B and any(v[1] for v in verdicts):
            ctx.label("reeval-equals-original")
        ctx.label(f"reeval:{phase}")

    if saturated:
        ctx.label("tanh-saturated-row-skipped")
    ncomp = 1 if isinstance(space, spaces.Discrete) else flat_logit_dim(space) if not isinstance(space, spaces.MultiDiscrete) else len(space.nvec)
    if ncomp >= 2 or mask is not None or squash:
        ctx.nontrivial({"a": case["act"], "m": mask is not None, "mf": case["mask_form"] if mask is not None else None,
                        "s": squash, "std": case["std_init"], "B": B, "w": case["wscale"], "w2": case["wscale2"]})


# ---------------------------------------------------------------------------------------------------------------
# obligations 2 and 3: through PPO and IPPO
# ---------------------------------------------------------------------------------------------------------------

def build_ppo(case):
    from agilerl.algorithms import PPO

    act = make_act(case["act"])
    obs_space = spaces.Box(-1.0, 1.0, (case["obs_dim"],), np.float32)
    ag.seed_all(case["wseed"])
    nc = ag.net_config(obs_space, "PPO", head=8, enc=8, latent=8)
    if case["squash"]:
        nc["squash_output"] = True
    if case.get("nohead"):
        nc.pop("head_config")  # the library's default head
    hp = dict(batch_size=case["batch_size"], lr=case["lr"], learn_step=8, gamma=0.9, gae_lambda=0.8, update_epochs=case["epochs"],
              action_std_init=case["std_init"])
    agent = PPO(obs_space, act, net_config=nc, share_encoders=False, **hp)
    perturb(agent.actor, case["wseed"], case["wscale"])
    return agent, obs_space, act


def build_ippo(case, custom_networks=False):
    from agilerl.algorithms import IPPO

    act = make_act(case["act"])
    act_b = make_act(case["act_b"])
    obs_space = spaces.Box(-1.0, 1.0, (case["obs_dim"],), np.float32)
    ids = ag.AGENT_IDS[: case["n_agents"]]
    obs_l = [obs_space for _ in ids]
    act_l = [act if a.startswith("a_") else act_b for a in ids]
    ag.seed_all(case["wseed"])
    nc = ag.net_config(obs_space, "IPPO", head=8, enc=8, latent=8)
    if case["squash"]:
        nc["squash_output"] = True
    hp = dict(batch_size=case["batch_size"], lr=case["lr"], learn_step=8, gamma=0.9, gae_lambda=0.8, update_epochs=case["epochs"],
              action_std_init=case["std_init"])
    if custom_networks:
        # the documented alternative to net_config: hand the networks over (one actor / critic per group of homogeneous agents)
        from agilerl.networks.actors import StochasticActor
        from agilerl.networks.value_networks import ValueNetwork

        uniq = [act] + ([act_b] if len(ids) > 2 else [])
        cnc = {k: v for k, v in nc.items() if k != "squash_output"}
        actors = [StochasticActor(obs_space, sp_, action_std_init=case["std_init"], **nc) for sp_ in uniq]
        critics = [ValueNetwork(obs_space, **cnc) for _ in uniq]
        agent = IPPO(obs_l, act_l, ids, actor_networks=actors, critic_networks=critics, **hp)
    else:
        agent = IPPO(obs_l, act_l, ids, net_config=nc, **hp)
    for actor in agent.actors:
        perturb(actor, case["wseed"], case["wscale"])
    return agent, obs_space, dict(zip(ids, act_l)), ids


def ppo_rollout(agent, obs_space, T, E, rng):
    """experiences exactly as train_on_policy assembles them"""
    states, actions, log_probs, rewards, dones, values = [], [], [], [], [], []
    done = np.zeros(E)
    for _ in range(T):
        obs = rng.uniform(-1, 1, size=(E, *obs_space.shape)).astype(np.float32)
        a, lp, _, v = agent.get_action(obs)
        states.append(obs)
        actions.append(a)
        log_probs.append(lp)
        rewards.append(rng.normal(size=(E,)).astype(np.float32))
        dones.append(done)
        values.append(v)
        done = rng.integers(0, 2, size=(E,)).astype(np.float64)
    nxt = rng.uniform(-1, 1, size=(E, *obs_space.shape)).astype(np.float32)
    return (states, actions, log_probs, rewards, dones, values, nxt, done)


def ippo_rollout(agent, obs_space, ids, T, E, rng):
    """experiences exactly as train_multi_agent_on_policy assembles them"""
    keys = ("states", "actions", "log_probs", "rewards", "dones", "values")
    st_ = {k: {a: [] for a in ids} for k in keys}
    done = {a: np.zeros(E) for a in ids}
    for _ in range(T):
        obs = {a: rng.uniform(-1, 1, size=(E, *obs_space.shape)).astype(np.float32) for a in ids}
        act, lp, _, v = agent.get_action(obs)
        for a in ids:
            st_["states"][a].append(obs[a])
            st_["actions"][a].append(act[a])
            st_["log_probs"][a].append(lp[a])
            st_["values"][a].append(v[a])
            st_["rewards"][a].append(rng.normal(size=(E,)).astype(np.float32))
            st_["dones"][a].append(done[a])
        done = {a: rng.integers(0, 2, size=(E,)).astype(np.float64) for a in ids}
    nxt = {a: rng.uniform(-1, 1, size=(E, *obs_space.shape)).astype(np.float32) for a in ids}
    return (st_["states"], st_["actions"], st_["log_probs"], st_["rewards"], st_["dones"], st_["values"], nxt, done)


def _ref_for(actor, space, obs_t, squash, mask=None):
    logits, log_std = net_params(actor, obs_t)
    return RefDist(space, logits, log_std, mask, squash)


def _report_lp(ctx, sig, ref, got, action_np, squash, what, details):
    """compare reported log-probs with the reference density of ``action_np`` (rows x components, any trailing shape)"""
    B = ref.B
    a = np.asarray(action_np)
    if a.size % B:
        ctx.fail(sig, f"{what}: action array of shape {a.shape} for {B} rows", **details)
        return False
    a = a.reshape(B, -1) if not isinstance(ref.space, spaces.Discrete) else a.reshape(B)
    if not isinstance(ref.space, spaces.Box) and not ref.legal(a).all():
        ctx.fail(sig, f"{what}: the action is outside the support of the distribution", **details)
        return False
    if squash:
        # the learner may hand the action scaled to the bounds or in (-1, 1): accept the density under either reading,
        # with or without the constant scaling Jacobian
        got_ = np.asarray(got, dtype=np.float64).reshape(-1)
        if got_.size != B:
            ctx.fail(sig, f"{what}: {got_.size} log-probabilities for {B} rows", **details)
            return False
        best = None
        for tag, at in (("(-1,1)", a), ("scaled", ref.unscale(a))):
            if np.any(np.abs(at) >= 1):
                continue
            want, cond = ref.log_prob(at)
            usable = np.isfinite(want) & (cond < 1e-3)
            for shift in (0.0, ref.scale_jacobian()):
                okr = (np.abs(got_ - (want - shift)) <= tol_for(want, cond)) | ~usable
                if okr.all():
                    return True
                if best is None:
                    best = (tag, want)
        ctx.fail(sig, f"{what}: reported log-probability differs from the tanh-corrected density of that action",
                 got=got_.tolist()[:4], want=None if best is None else best[1].tolist()[:4], **details)
        return False
    want, cond = ref.log_prob(a)
    return check_lp(ctx, sig, np.asarray(got, dtype=np.float64).reshape(-1), want, cond, what, details)


def _eval_mode_action(ctx, level, agent, d, space, call, n, details):
    """squashed policies in evaluation mode: the action handed to the environment lies inside the bounds"""
    agent.set_training_mode(False)
    try:
        ok, out = _call(ctx, sig_for(level, d, True, "get_action_eval_mode", "raises"), call, **details)
    finally:
        agent.set_training_mode(True)
    if not ok:
        return
    acts = out[0]
    for key, a in (acts.items() if isinstance(acts, dict) else [(None, acts)]):
        sp_ = space[key] if isinstance(space, dict) else space  # multi-agent: each agent against its own bounds
        a = np.asarray(a, dtype=np.float64)
        if a.size != n * int(np.prod(sp_.shape)):
            continue
        a = a.reshape(n, -1)
        ctx.check(bool(np.all((a >= sp_.low - 1e-5) & (a <= sp_.high + 1e-5))),
                  sig_for(level, d, True, "get_action_eval_mode", "support"),
                  "evaluation-mode action of a squashed policy lies outside the action bounds", agent=key, **details)
    ctx.label("squash-eval-mode")


def run_ppo(case, ctx):
    from agilerl.algorithms import PPO

    d = case["act"]
    squash = bool(case["squash"]) and d["k"] == "box"
    kind = act_kind(d, squash)
    details = {"act": d, "squash": squash, "std_init": case["std_init"]}

    def sg(site, clause):
        return sig_for("PPO", d, squash, site, clause)

    ctx.label(f"kind={kind}")
    if squash:
        # constructing / acting with a squashed policy is part of "with and without output squashing ... for PPO"
        okb, built = _call(ctx, sg("construct", "raises"), lambda: build_ppo(case), **details)
        if not okb:
            return
    else:
        try:
            built = build_ppo(case)
        except Exception as e:  # noqa: BLE001
            ctx.label(f"setup-failed:{type(e).__name__}")
            return
    agent, obs_space, space = built
    rng = np.random.default_rng(case["oseed"])
    B = case["B"]
    ncomp = max(1, int(np.prod(space.shape)))
    obs = rng.uniform(-1, 1, size=(B, *obs_space.shape)).astype(np.float32)
    obs_t = torch.as_tensor(obs)
    mask = None
    if case["mask"] and not isinstance(space, spaces.Box):
        mask = draw_mask(space, B, rng, 0.6)

    def rows_of(arr, n):
        return arr.reshape(n, -1) if space.shape else arr.reshape(n)

    # ---- get_action: density of the returned action ------------------------------------------------------------
    torch.manual_seed(case["tseed"])
    okg, out = _call(ctx, sg("get_action", "raises"),
                     lambda: agent.get_action(obs, action_mask=mask.astype(np.int8)) if mask is not None else agent.get_action(obs),
                     **details)
    if not okg:
        return
    a, lp, ent, _ = out
    a = np.asarray(a)
    ref = _ref_for(agent.actor, space, obs_t, squash, mask)
    if a.shape[0] != B or a.size != B * ncomp:
        ctx.fail(sg("get_action", "support"), f"action of shape {a.shape} for {B} rows of {space}", **details)
        return
    a_rows = rows_of(a, B)
    if not squash:
        ctx.check(bool(ref.legal(a_rows).all()), sg("get_action", "support"), "returned action outside the support / mask", **details)
    _report_lp(ctx, sg("get_action", "log_prob"), ref, lp, a_rows, squash, "get_action", dict(details, masked=mask is not None))
    if not squash:
        check_entropy(ctx, sg("get_action", "entropy"), ent, ref.entropy(), "get_action", details)
    if mask is not None:
        ctx.label("ppo-masked")
    if squash:
        _eval_mode_action(ctx, "PPO", agent, d, space, lambda: agent.get_action(obs), B, details)

    # ---- evaluate_actions on the same observations and actions, unchanged weights ------------------------------
    if mask is None:
        oke, ev = _call(ctx, sg("evaluate_actions", "raises"),
                        lambda: agent.evaluate_actions(obs_t.clone(), torch.as_tensor(a)), level="PPO", **details)
        if oke:
            lp2, ent2, _ = ev
            _report_lp(ctx, sg("evaluate_actions", "log_prob"), ref, _np(lp2), a_rows, squash,
                       "evaluate_actions(same obs, returned actions)", dict(details, level="PPO", phase="same_weights"))
            if not squash:
                check_entropy(ctx, sg("evaluate_actions", "entropy"), ent2, ref.entropy(), "evaluate_actions", details)

    # ---- the re-evaluation inside a real learn() ------------------------------------------------------------------
    calls = []
    orig = PPO.evaluate_actions

    def spy(self, obs, actions):  # same parameter names: learn() calls it with keywords
        out_ = orig(self, obs, actions)
        try:
            r = _ref_for(self.actor, space, self.preprocess_observation(obs), squash)
            calls.append((r, _np(out_[0]).copy(), _np(actions).copy(), None if out_[1] is None else _np(out_[1]).copy()))
        except Exception as e:  # noqa: BLE001 - an observer must not change the outcome
            calls.append(("observer-error", repr(e)))
        return out_

    T, E = case["T"], case["E"]
    ag.seed_all(case["tseed"])
    okr, exp = _call(ctx, sg("get_action", "raises"), lambda: ppo_rollout(agent, obs_space, T, E, rng), **details)
    if not okr:
        return
    PPO.evaluate_actions = spy
    try:
        _call(ctx, sg("learn_reeval", "raises"), lambda: agent.learn(exp), level="PPO", **details)
    finally:
        PPO.evaluate_actions = orig
    for n, c in enumerate(calls):
        if c[0] == "observer-error":
            raise HarnessError(f"observer failed: {c[1]}")
        r, got_lp, acts, got_ent = c
        phase = "same_weights" if n == 0 else "new_weights"
        dd = dict(details, level="PPO", phase=phase, minibatch=n)
        if acts.size != r.B * ncomp:
            ctx.fail(sg("learn_reeval", "log_prob"), f"stored actions reach the re-evaluation with shape {acts.shape} for {r.B} rows", **dd)
            continue
        if not _report_lp(ctx, sg("learn_reeval", "log_prob"), r, got_lp, rows_of(acts, r.B), squash,
                          f"re-evaluation inside learn ({phase})", dd):
            break
        if not squash and got_ent is not None:
            check_entropy(ctx, sg("learn_reeval", "entropy"), got_ent, r.entropy(), "learn", dd)
        ctx.label(f"learn-reeval:{phase}")
    if len(calls) >= 2:
        # ---- after the weights changed: evaluate_actions on the first batch again -------------------------------
        ref_new = _ref_for(agent.actor, space, obs_t, squash)
        if mask is None:
            oke, ev = _call(ctx, sg("evaluate_actions", "raises"),
                            lambda: agent.evaluate_actions(obs_t.clone(), torch.as_tensor(a)), level="PPO", **details)
            if oke:
                _report_lp(ctx, sg("evaluate_actions", "log_prob"), ref_new, _np(ev[0]), a_rows, squash,
                           "evaluate_actions after learn()", dict(details, level="PPO", phase="new_weights"))
        if (ncomp >= 2 and not isinstance(space, spaces.Discrete)) or squash or mask is not None:
            ctx.nontrivial({"a": d, "s": squash, "m": mask is not None, "T": T, "E": E, "bs": case["batch_size"],
                            "std": case["std_init"]})


def run_ippo(case, ctx):
    from agilerl.networks.actors import StochasticActor

    d, d_b = case["act"], case["act_b"]
    squash = bool(case["squash"]) and d["k"] == "box"
    kind = act_kind(d, squash)
    details = {"act": d, "act_b": d_b, "squash": squash, "n_agents": case["n_agents"]}
    ctx.label(f"kind={kind}")
    if squash:
        okb, built = _call(ctx, sig_for("IPPO", d, squash, "construct", "raises"), lambda: build_ippo(case), **details)
        if not okb:
            try:  # go on with hand-made networks so that the squashed policy itself is still examined
                built = build_ippo(case, custom_networks=True)
                ctx.label("ippo-squash-custom-networks")
            except Exception as e:  # noqa: BLE001
                ctx.label(f"setup-failed:{type(e).__name__}")
                return
    else:
        try:
            built = build_ippo(case)
        except Exception as e:  # noqa: BLE001
            ctx.label(f"setup-failed:{type(e).__name__}")
            return
    agent, obs_space, act_of, ids = built
    rng = np.random.default_rng(case["oseed"])
    E = case["E"]
    group_of = {a: agent.get_homo_id(a) for a in ids}
    actor_of = {g: actor for g, actor in zip(agent.shared_agent_ids, agent.actors)}

    def json_of(a):
        return d if a.startswith("a_") else d_b

    def sq(a):
        return squash and isinstance(act_of[a], spaces.Box)

    def rows_of(arr, n, space):
        return arr.reshape(n, -1) if space.shape else arr.reshape(n)

    # ---- get_action: per (agent, env) the reported log-prob is the density of the reported action -------------------
    obs = {a: rng.uniform(-1, 1, size=(E, *obs_space.shape)).astype(np.float32) for a in ids}
    torch.manual_seed(case["tseed"])
    okg, out = _call(ctx, sig_for("IPPO", d, squash, "get_action", "raises"), lambda: agent.get_action(obs), **details)
    if not okg:
        return
    act, lp, ent, _ = out
    for a in ids:
        space = act_of[a]
        r = _ref_for(actor_of[group_of[a]], space, torch.as_tensor(obs[a]), sq(a))
        arr = np.asarray(act[a])
        if arr.size != E * max(1, int(np.prod(space.shape))):
            ctx.fail(sig_for("IPPO", json_of(a), sq(a), "get_action", "support"), f"action of shape {arr.shape} for {E} envs of {space}",
                     agent=a, **details)
            continue
        _report_lp(ctx, sig_for("IPPO", json_of(a), sq(a), "get_action", "log_prob"), r, lp[a], rows_of(arr, E, space), sq(a),
                   "get_action", dict(details, agent=a))
        if not sq(a):
            check_entropy(ctx, sig_for("IPPO", json_of(a), sq(a), "get_action", "entropy"), ent[a], r.entropy(), "get_action",
                          dict(details, agent=a))
    if squash:
        _eval_mode_action(ctx, "IPPO", agent, d, act_of, lambda: agent.get_action(obs), E, details)

    # ---- the re-evaluation inside a real learn() ------------------------------------------------------------------
    # IPPO re-evaluates inline: the minibatch's states are seen where learn() draws them (get_experiences_samples in the
    # ippo module's namespace), the stored actions and the answer where StochasticActor.action_log_prob is called
    import agilerl.algorithms.ippo as ippo_mod
    from agilerl.utils.algo_utils import preprocess_observation

    calls = []
    pending = {}
    orig_ges, orig_alp = ippo_mod.get_experiences_samples, StochasticActor.action_log_prob

    def spy_ges(idxs, *experiences):
        out_ = orig_ges(idxs, *experiences)
        pending["states"] = out_[0]
        return out_

    def spy_alp(self, action):
        out_ = orig_alp(self, action)
        try:
            g = [g for g, ac in actor_of.items() if ac is self][0]
            member = agent.homogeneous_agents[g][0]
            o_t = preprocess_observation(pending["states"], obs_space)
            r = _ref_for(self, act_of[member], o_t, sq(member))
            calls.append((g, member, r, _np(out_).copy(), _np(action).copy()))
        except Exception as e:  # noqa: BLE001 - an observer must not change the outcome
            calls.append(("observer-error", repr(e)))
        return out_

    ag.seed_all(case["tseed"])
    okr, exp = _call(ctx, sig_for("IPPO", d, squash, "get_action", "raises"),
                     lambda: ippo_rollout(agent, obs_space, ids, case["T"], E, rng), **details)
    if not okr:
        return
    ippo_mod.get_experiences_samples, StochasticActor.action_log_prob = spy_ges, spy_alp
    try:
        # the second group's space always has >= 2 components, so a failure here belongs to the first group's space class
        _call(ctx, sig_for("IPPO", d, squash, "learn_reeval", "raises"), lambda: agent.learn(exp), level="IPPO", **details)
    finally:
        ippo_mod.get_experiences_samples, StochasticActor.action_log_prob = orig_ges, orig_alp
    seen = {}
    for c in calls:
        if c[0] == "observer-error":
            raise HarnessError(f"observer failed: {c[1]}")
        g, member, r, got_lp, acts = c
        n = seen.get(g, 0)
        seen[g] = n + 1
        phase = "same_weights" if n == 0 else "new_weights"
        space = act_of[member]
        sig = sig_for("IPPO", json_of(member), sq(member), "learn_reeval", "log_prob")
        dd = dict(details, level="IPPO", phase=phase, group=g)
        if acts.size != r.B * max(1, int(np.prod(space.shape))):
            ctx.fail(sig, f"stored actions reach the re-evaluation with shape {acts.shape} for {r.B} rows", **dd)
            continue
        if _report_lp(ctx, sig, r, got_lp, rows_of(acts, r.B, space), sq(member), f"re-evaluation inside learn ({phase})", dd):
            ctx.label(f"learn-reeval:{phase}")
    if calls:
        ctx.nontrivial({"a": d, "b": d_b, "s": squash, "n": case["n_agents"], "T": case["T"], "E": E, "bs": case["batch_size"]})


# ---------------------------------------------------------------------------------------------------------------
# strategies
# ---------------------------------------------------------------------------------------------------------------

@st.composite
def act_strategy(draw, box_bounds=("sym", "asym", "perdim")):
    k = draw(st.sampled_from(["discrete", "multidiscrete", "multibinary", "box"]))
    if k == "discrete":
        return {"k": k, "n": draw(st.sampled_from([1, 2, 3, 5, 8]))}
    if k == "multidiscrete":
        return {"k": k, "nvec": draw(st.lists(st.integers(1, 4), min_size=1, max_size=4))}
    if k == "multibinary":
        return {"k": k, "n": draw(st.integers(1, 5))}
    return {"k": k, "n": draw(st.integers(1, 4)), "bounds": draw(st.sampled_from(list(box_bounds)))}


@st.composite
def actor_strategy(draw, tier):
    act = draw(act_strategy())
    squash = draw(st.integers(0, 1)) if act["k"] == "box" else 0
    return {"act": act, "obs_dim": draw(st.integers(1, 4)), "B": draw(st.integers(1, 6)), "B2": draw(st.integers(1, 4)),
            "wseed": draw(st.integers(0, 9999)), "wscale": draw(st.sampled_from([0.0, 0.1, 0.3, 1.0])),
            "wscale2": draw(st.sampled_from([0.0, 0.05, 0.3])),
            # (wide log-std range only without squashing: with exp(2.5) ~ 12 nearly every tanh sample saturates and the float32
            #  log(1 - tanh^2) correction is ill-conditioned there - that would test rounding, not the property)
            "std_init": (draw(st.sampled_from([-2.0, -1.0, -0.5, 0.0, 0.0, 0.5])) if squash else
                         draw(st.sampled_from([-25.0, -2.0, -1.0, -0.5, 0.0, 0.0, 0.5, 2.5, 4.0]))) if act["k"] == "box" else 0.0,
            "squash": squash, "mask": draw(st.integers(0, 1)), "mask_density": draw(st.sampled_from([0.2, 0.5, 0.8])),
            "mask_form": draw(st.sampled_from(["numpy", "bool", "tensor", "object"])),
            "K": draw(st.integers(3, 12)), "oseed": draw(st.integers(0, 9999)), "tseed": draw(st.integers(0, 9999)),
            "mut": draw(st.sampled_from([None, None, None, "add_latent_node", "remove_latent_node", "any"]))}


@st.composite
def ppo_strategy(draw, tier):
    act = draw(act_strategy())
    squash = draw(st.sampled_from([0, 0, 1])) if act["k"] == "box" else 0
    return {"act": act, "obs_dim": draw(st.integers(2, 4)), "B": draw(st.integers(2, 5)),
            "T": draw(st.integers(2, 4)), "E": draw(st.integers(1, 3)), "batch_size": draw(st.integers(2, 5)),
            "epochs": draw(st.integers(1, 2)), "lr": draw(st.sampled_from([1e-3, 1e-2, 5e-2])),
            "wseed": draw(st.integers(0, 9999)), "wscale": draw(st.sampled_from([0.0, 0.1, 0.3])),
            "std_init": (draw(st.sampled_from([0.0, 0.0, 0.3])) if squash else draw(st.sampled_from([0.0, 0.0, 0.3, 2.5]))) if act["k"] == "box" else 0.0,
            "squash": squash, "nohead": draw(st.integers(0, 1)) if squash else 0, "mask": draw(st.sampled_from([0, 0, 1])),
            "oseed": draw(st.integers(0, 9999)), "tseed": draw(st.integers(0, 9999))}


@st.composite
def ippo_strategy(draw, tier):
    act = draw(act_strategy(box_bounds=("sym", "asym")))
    # the other group's space: same family (IPPO requires it), always with >= 2 components
    if act["k"] in ("discrete", "multidiscrete"):
        act_b = draw(st.sampled_from([{"k": "discrete", "n": 3}, {"k": "multidiscrete", "nvec": [2, 3]}]))
    elif act["k"] == "multibinary":
        act_b = {"k": "multibinary", "n": 3}
    else:
        act_b = {"k": "box", "n": 2, "bounds": "sym"}
    squash = draw(st.sampled_from([0, 0, 1])) if act["k"] == "box" else 0
    return {"act": act, "act_b": act_b, "n_agents": draw(st.sampled_from([2, 3])), "obs_dim": draw(st.integers(2, 4)),
            "T": draw(st.integers(2, 3)), "E": draw(st.integers(1, 3)), "batch_size": draw(st.integers(2, 5)),
            "epochs": draw(st.integers(1, 2)), "lr": draw(st.sampled_from([1e-3, 1e-2, 5e-2])),
            "wseed": draw(st.integers(0, 9999)), "wscale": draw(st.sampled_from([0.0, 0.1, 0.3])),
            "std_init": (draw(st.sampled_from([0.0, 0.0, 0.3])) if squash else draw(st.sampled_from([0.0, 0.0, 0.3, 2.5]))) if act["k"] == "box" else 0.0,
            "squash": squash, "oseed": draw(st.integers(0, 9999)), "tseed": draw(st.integers(0, 9999))}


GRID_ACTS = [({"k": "discrete", "n": 1}, 0), ({"k": "discrete", "n": 4}, 0), ({"k": "multidiscrete", "nvec": [3]}, 0),
             ({"k": "multidiscrete", "nvec": [2, 3]}, 0), ({"k": "multidiscrete", "nvec": [1, 4, 2]}, 0), ({"k": "multibinary", "n": 1}, 0),
             ({"k": "multibinary", "n": 3}, 0), ({"k": "box", "n": 1, "bounds": "sym"}, 0), ({"k": "box", "n": 1, "bounds": "asym"}, 0),
             ({"k": "box", "n": 2, "bounds": "asym"}, 0), ({"k": "box", "n": 3, "bounds": "perdim"}, 0),
             ({"k": "box", "n": 1, "bounds": "sym"}, 1), ({"k": "box", "n": 2, "bounds": "sym"}, 1), ({"k": "box", "n": 2, "bounds": "asym"}, 1)]


def _env_seed():
    import os

    return int(os.environ.get("VERIF_SEED", "1") or "1")


def _common(rng, act, squash):
    return {"act": act, "obs_dim": int(rng.integers(2, 5)), "T": int(rng.integers(2, 4)), "E": int(rng.integers(1, 4)),
            "batch_size": int(rng.integers(2, 6)), "epochs": int(rng.integers(1, 3)), "lr": [1e-3, 1e-2, 5e-2][int(rng.integers(0, 3))],
            "wseed": int(rng.integers(0, 10000)), "wscale": [0.0, 0.1, 0.3][int(rng.integers(0, 3))],
            "std_init": [0.0, 0.3][int(rng.integers(0, 2))] if act["k"] == "box" else 0.0, "squash": squash,
            "oseed": int(rng.integers(0, 10000)), "tseed": int(rng.integers(0, 10000))}


def ppo_grid(tier):
    """every action-space class (single / multi component, squash) once per mask setting, the rest from VERIF_SEED"""
    for rep in range(1 if tier == "quick" else 8):
        for i, (act, squash) in enumerate(GRID_ACTS):
            for mask in ((0, 1) if act["k"] != "box" else (0,)):
                rng = np.random.default_rng([_env_seed(), rep, i, mask])
                c = _common(rng, act, squash)
                c.update(B=int(rng.integers(2, 6)), mask=mask, nohead=int(rng.integers(0, 2)) if squash else 0)
                yield c


def ippo_grid(tier):
    for rep in range(1 if tier == "quick" else 8):
        for i, (act, squash) in enumerate(GRID_ACTS):
            rng = np.random.default_rng([_env_seed(), rep, i, 7])
            c = _common(rng, act, squash)
            c["act"] = dict(act, bounds="asym" if act.get("bounds") == "perdim" else act.get("bounds")) if act["k"] == "box" else act
            if act["k"] in ("discrete", "multidiscrete"):
                act_b = [{"k": "discrete", "n": 3}, {"k": "multidiscrete", "nvec": [2, 3]}][int(rng.integers(0, 2))]
            elif act["k"] == "multibinary":
                act_b = {"k": "multibinary", "n": 3}
            else:
                act_b = {"k": "box", "n": 2, "bounds": "sym"}
            c.update(act_b=act_b, n_agents=int(rng.integers(2, 4)), T=int(rng.integers(2, 4)))
            yield c


PROPERTY = Property(
    id="C16",
    level="exploration",
    rule=("(a) StochasticActor built for a drawn action space (Discrete n in 1..8, MultiDiscrete 1-4 components, MultiBinary 1-5, Box "
          "1-4 dims with symmetric / asymmetric / per-dimension bounds) x batch 1-6 x perturbed weights x mask (int8 / bool array, tensor, "
          "object array of per-env masks; >= 1 legal action per component) x log-std initialisation x squash: support, log-probability and entropy against "
          "float64 numpy densities from the network's own head outputs, K repeated draws under the mask, probability of a masked "
          "action, and re-evaluation of the stored action after other forward passes and after a weight change. (b)/(c) PPO and IPPO "
          "built on the same spaces: get_action, evaluate_actions on the same data, and every re-evaluation inside a real learn() on a "
          "generated rollout (observed by wrapping evaluate_actions / action_log_prob). non-trivial = space with >= 2 independent "
          "components, a mask, or squashing (a, b); a learn() that re-evaluated (c); distinct by (space, mask, squash, std, sizes)"),
    obligations=[
        Obligation("actor_density", run_actor, strategy=actor_strategy,
                   examples={"quick": 600, "thorough": 5000}, shards={"quick": 8, "thorough": 16},
                   shrink_budget={"quick": 150, "thorough": 600}),
        Obligation("ppo_reeval", run_ppo, strategy=ppo_strategy, enumerate=ppo_grid,
                   examples={"quick": 25, "thorough": 500}, shards={"quick": 6, "thorough": 16},
                   shrink_budget={"quick": 60, "thorough": 300}),
        Obligation("ippo_reeval", run_ippo, strategy=ippo_strategy, enumerate=ippo_grid,
                   examples={"quick": 20, "thorough": 400}, shards={"quick": 6, "thorough": 16},
                   shrink_budget={"quick": 60, "thorough": 300}),
    ],
    assumptions=[
        "the distribution 'defined by the network's outputs' is read off the actor's own modules: head_net.wrapped(extract_features(obs)) "
        "and head_net.log_std; a MultiBinary mask entry 0 means 'this bit may not be set'",
        "tolerance on log-probabilities 1e-5 + 2e-6*|value| plus the conditioning of the float32 action itself; rows whose tanh "
        "action is so saturated that this exceeds 1e-3 are skipped (label tanh-saturated-row-skipped)",
        "with squashing the density may be reported over the (-1, 1) action or over the action scaled to the bounds (constant "
        "Jacobian), and the stored action may be handed back in either encoding - a check fails only if no reading matches",
        "entropy of a squashed policy has no closed form and is not checked",
        "PPO / IPPO are driven in training mode (actions returned as sampled); action_std_init >= 0 there (constructor assertion); "
        "masks are not used for re-evaluation (the learners do not store them)",
        "IPPO.learn draws its minibatches through the name get_experiences_samples of agilerl.algorithms.ippo and re-evaluates "
        "through StochasticActor.action_log_prob; PPO.learn through PPO.evaluate_actions (if a refactor removes these names the "
        "label learn-reeval:* drops to zero and the direct get_action / evaluate_actions clauses still decide)",
    ],
    wanted_labels=["actor-after-architecture-mutation", "kind=discrete", "kind=discrete+mask", "kind=multidiscrete", "kind=multidiscrete+mask", "kind=multibinary",
                   "kind=multibinary+mask", "kind=box", "kind=box+squash", "kind=box1", "kind=multidiscrete1", "kind=multibinary1",
                   "single-component", "masked-draws", "reeval:same_weights", "reeval:new_weights", "learn-reeval:same_weights", "learn-reeval:new_weights"],
)
