"""C19 - neural bandits keep an exact inverse of their regularised Gram matrix.

A case is a NeuralUCB / NeuralTS agent (context dim 1-6, arms 2-6, lambda in [0.1, 10], gamma) and a history of <= 25 ops

    ["act", context_seed, mask_bits]   agent.get_action(context, action_mask)
    ["learn", seed]                    agent.learn(batch of agent.batch_size rows)
    ["mutate", kind, seed]             one round of the real Mutations class (none / arch / param / act / rl_hp)
    ["clone", who_continues]           clone-and-continue; the other object stays behind as a bystander
    ["reload"]                         save_checkpoint + type(agent).load (temp dir removed)

interpreted against a float64 reference  Z = lambda*I + S,  S = sum of v v^T  over the gradient features of the arms that
get_action RETURNED since the matrix was last initialised.  v is recomputed independently (torch.autograd.grad of the network
output for the returned arm w.r.t. the trainable parameters of ``actor.get_output_dense()``, divided by
sqrt(output_layer.weight.size(0)) - that is how both algorithms define their feature; the value network's output layer has one
output row, so the divisor is 1 on the whole reachable domain).

What the reference does at each op ("since the matrix was last initialised", decided from the statement):

* act     - a decision: S += v v^T for the arm that was returned (whatever arm the exploration rule / the TS sample / the
            mask picked; the oracle never predicts the arm).
* learn   - not a decision and not an initialisation: the features that were added are those of decision time, so Z and
            therefore the matrix must not change at all (bitwise).
* clone / reload - copies of an agent, not initialisations of a matrix: the decisions "since the matrix was last initialised"
            are the original's decisions, and the statement's last sentence lists "cloned or reloaded" among the events the
            matrix survives.  The reference is carried over unchanged; the copy must hold the same matrix, and afterwards the
            copy and the original must not influence each other (the one left behind keeps its matrix bitwise while the other
            one decides - otherwise the bystander's matrix would contain decisions it never made).
* mutate  - both algorithms register ``init_params`` ("Initializes the parameters ...") as their mutation hook and
            ``Mutations.mutation`` runs the hooks after every kind of mutation, so a mutation round is a documented
            initialisation point.  The statement does not say that it HAS to be one, so the public behaviour decides: if the
            matrix after the round is exactly c*I (all off-diagonal entries exactly zero, constant diagonal) with the side of
            the new output layer, a re-initialisation is recognised and the reference restarts at Z = lambda*I; otherwise the
            matrix must have been carried over (same layer size: unchanged; resized layer: old coordinates kept by position
            within each parameter tensor, new coordinates start at lambda).  Anything else is neither.
            (If no decision was taken since the last initialisation both readings coincide.)

After EVERY op: side length == number of trainable parameters of the network's current output layer (clause ``size``),
matrix symmetric, smallest eigenvalue > 0, every arm's bonus g sigma g^T >= 0 on a fresh context, and
``|sigma_inv - Z^-1| <= 1e-3 * |Z^-1|`` (max norms; float32 matrix, float64 reference; equivalent to sigma_inv Z ~ I but not
amplified by |Z|).  Independently of where the matrix started, every decision must be a Sherman-Morrison step relative to the
PREVIOUS matrix (``update`` clause: sigma' == sigma - sigma v v^T sigma / (1 + v^T sigma v), i.e. sigma'^-1 - sigma^-1 == v v^T),
so that after excluding a wrong initial value the update law, symmetry, definiteness, size, independence and restore clauses
are still decided.  When the inverse clause fails the oracle tests one alternative hypothesis, Z' = I/lambda + S: if the matrix
is exactly the inverse of THAT, the root cause is "regulariser inverted" (matrix initialised to lambda*I although the inverse of
lambda*I is I/lambda) and gets its own signature; everything else is "not the inverse".

``sigma_inv`` is the only window the library offers on the confidence matrix (anchor ``observe_at``); if the attribute is gone
the case is labelled ``no-sigma_inv`` and nothing is decided (never a violation).
"""
from __future__ import annotations

import os
import shutil
import tempfile

import numpy as np
import torch
from gymnasium import spaces
from hypothesis import strategies as st

from vp.core.engine import Obligation, Property
from vp.gen import agents as ag
from vp.gen import histories as hist

ALGOS = ["NeuralUCB", "NeuralTS"]
LAMBDAS = [0.1, 0.25, 0.5, 2.0, 4.0, 10.0]
GAMMAS = [0.1, 0.5, 1.0, 2.0]
ACTIVATIONS = ["ReLU", "Tanh", "ELU", "GELU"]
REL = 1e-3


# ---------------------------------------------------------------------------
# building blocks
# ---------------------------------------------------------------------------

def build(case):
    from agilerl.algorithms import NeuralTS, NeuralUCB

    ag.seed_all(case["seed"])
    obs = spaces.Box(-1.0, 1.0, (case["dim"],), np.float32)
    act = spaces.Discrete(case["arms"])
    net = {"latent_dim": 8,
           "encoder_config": {"hidden_size": [8], "min_mlp_nodes": 4, "max_mlp_nodes": 40, "activation": case["activation"]},
           # output layer = head's last linear: in_features = last hidden size (+1 bias) <= 40 parameters
           "head_config": {"hidden_size": list(case["head"]), "min_mlp_nodes": 2, "max_mlp_nodes": 39, "activation": case["activation"]}}
    cls = NeuralUCB if case["algo"] == "NeuralUCB" else NeuralTS
    return cls(obs, act, net_config=net, hp_config=_hp_config(case), lamb=case["lamb"], gamma=case["gamma"],
               batch_size=4, lr=1e-2, learn_step=1)


def context_for(case, seed):
    rng = np.random.default_rng(seed)
    return rng.uniform(-1, 1, size=(case["arms"], case["dim"])).astype(np.float32)


def batch_for(case, agent, seed):
    from tensordict import TensorDict

    rng = np.random.default_rng(seed)
    n = int(agent.batch_size)
    return TensorDict({"obs": torch.tensor(rng.uniform(-1, 1, size=(n, case["dim"])).astype(np.float32)),
                       "reward": torch.tensor(rng.integers(0, 2, size=(n, 1)).astype(np.float32))}, batch_size=[n])


def out_layer(agent):
    return agent.actor.get_output_dense()


def layout(agent):
    """[(parameter name, numel)] of the trainable parameters of the current output layer, in the order the features use"""
    return [(k, p.numel()) for k, p in out_layer(agent).named_parameters() if p.requires_grad]


def features(agent, context):
    """(arms, P) float64 gradient features of every arm, independent of agent.exp_layer / agent.numel / .grad fields"""
    layer = out_layer(agent)
    params = [p for p in layer.parameters() if p.requires_grad]
    obs = agent.preprocess_observation(context)
    mu = agent.actor(obs)
    width = float(np.sqrt(layer.weight.size(0)))
    rows = []
    for k in range(mu.shape[0]):
        gr = torch.autograd.grad(mu[k].sum(), params, retain_graph=True, allow_unused=True)
        rows.append(torch.cat([(g if g is not None else torch.zeros_like(p)).flatten() for g, p in zip(gr, params)]) / width)
    return torch.stack(rows).detach().double().numpy()


def sigma(agent):
    return agent.sigma_inv.detach().double().cpu().numpy().copy()


def is_scaled_identity(m):
    if m.ndim != 2 or m.shape[0] != m.shape[1]:
        return False
    d = np.diag(m)
    return bool(np.all(m - np.diag(d) == 0) and np.all(d == d[0]))


def carry_over(S, old_layout, new_layout):
    """Gram sum re-indexed to a resized output layer: coordinates kept by position inside each parameter tensor"""
    off_o, o = {}, 0
    for k, n in old_layout:
        off_o[k] = (o, n)
        o += n
    idx_old, idx_new, o = [], [], 0
    for k, n in new_layout:
        if k in off_o:
            keep = min(n, off_o[k][1])
            idx_new += list(range(o, o + keep))
            idx_old += list(range(off_o[k][0], off_o[k][0] + keep))
        o += n
    out = np.zeros((o, o))
    out[np.ix_(idx_new, idx_new)] = S[np.ix_(idx_old, idx_old)]
    return out


def rel_err(a, b):
    return float(np.abs(a - b).max() / max(np.abs(b).max(), 1e-300))


def _hp_config(case):
    """lr and batch_size as usual; in half of the cases the regulariser lambda is a mutable RL hyper-parameter too (it is a plain
    constructor argument / attribute of the bandits, so a HyperparameterConfig may list it)"""
    spec = {"lr": [1e-4, 1e-1, 0.8, 1.2, "float"], "batch_size": [2, 8, 0.8, 1.2, "int"]}
    if case.get("lamb_mutable"):
        spec = {"lamb": [0.05, 20.0, 0.5, 2.0, "float"], "lr": [1e-4, 1e-1, 0.8, 1.2, "float"]}
    return ag.make_hp_config(case["algo"], spec)


class Ref:
    def __init__(self, lam, P):
        self.lam = lam
        self.S = np.zeros((P, P))
        self.n = 0  # decisions since the last initialisation

    def copy(self):
        r = Ref(self.lam, self.S.shape[0])
        r.S, r.n = self.S.copy(), self.n
        return r

    def inv_stmt(self):
        return np.linalg.inv(self.lam * np.eye(len(self.S)) + self.S)

    def inv_swapped(self):
        return np.linalg.inv(np.eye(len(self.S)) / self.lam + self.S)


def _bucket(err):
    import math

    if not err > 0:
        return "=0"
    return f"<=1e{max(-9, min(2, math.ceil(math.log10(err))))}"


# ---------------------------------------------------------------------------
# invariants after every op
# ---------------------------------------------------------------------------

def check_invariants(ctx, case, agent, ref, opk, probe_seed, status):
    """``status`` remembers which clauses already fail in this case: a clause is reported by the op after which it FIRST fails (a
    wrong matrix stays wrong under every later op; reporting each of them would split one root cause over many signatures)."""
    algo = case["algo"]

    def verdict(clause, ok, sig, msg, **details):
        was_bad = status.get(clause, False)
        status[clause] = not ok
        if not ok and not was_bad:
            ctx.fail(sig, msg, **details)

    P = sum(n for _, n in layout(agent))
    shape = tuple(agent.sigma_inv.shape)
    if shape != (P, P):
        ctx.abort(f"C19/size/after_{opk}/matrix_side_differs_from_output_layer",
                  f"sigma_inv has shape {shape} but the network's output layer has {P} trainable parameters", op=opk, algo=algo,
                  numel_attr=int(getattr(agent, "numel", -1)))
    if int(getattr(agent, "numel", P)) != P:
        ctx.fail(f"C19/size/after_{opk}/numel_differs_from_output_layer", f"agent.numel={agent.numel} but the output layer has {P} "
                 "trainable parameters", op=opk, algo=algo)
    m = sigma(agent)
    if not np.isfinite(m).all():
        ctx.abort(f"C19/inverse/{algo}/matrix_not_finite/after_{opk}", "sigma_inv holds nan/inf", op=opk)
    asym = float(np.abs(m - m.T).max() / max(np.abs(m).max(), 1e-300))
    verdict("symmetric", asym <= 1e-4, f"C19/symmetric/{algo}/after_{opk}", f"sigma_inv is not symmetric (relative asymmetry {asym:.3g})", op=opk, asym=asym)
    ev = float(np.linalg.eigvalsh((m + m.T) / 2).min())
    verdict("pd", ev > 0, f"C19/positive_definite/{algo}/after_{opk}", f"smallest eigenvalue of sigma_inv is {ev:.3g}", op=opk, min_eig=ev)
    # every arm's bonus on a fresh context, computed the way the algorithms do (float32)
    try:
        g = torch.tensor(features(agent, context_for(case, probe_seed)), dtype=torch.float32)
    except Exception as e:  # noqa: BLE001 - the network cannot evaluate a context: not this property's subject
        ctx.label(f"feature-probe-failed:{type(e).__name__}")
        g = None
    if g is not None and g.shape[1] == P:
        bonus = torch.matmul(torch.matmul(g[:, None, :], agent.sigma_inv.detach().float()), g[:, :, None])[:, 0, 0]
        bad = [i for i, b in enumerate(bonus.tolist()) if not b >= 0]
        verdict("bonus", not bad, f"C19/bonus_negative/{algo}/after_{opk}", "exploration bonus g sigma_inv g^T of an arm is negative or nan",
                op=opk, arms=bad, bonus=bonus.tolist())
    want = ref.inv_stmt()
    err = rel_err(m, want)
    if err <= REL:
        ctx.label("inverse_err" + _bucket(err))
        status["inverse"] = "ok"
        return
    err_sw = rel_err(m, ref.inv_swapped())
    cls = "inverted_regulariser" if err_sw <= REL else "other"
    if status.get("inverse", "ok") == cls:
        ctx.label("inverse-clause-still-failing-the-same-way")
        return
    status["inverse"] = cls
    if err_sw <= REL:
        ctx.label("inverse_err_vs_swapped" + _bucket(err_sw))
        ctx.fail(f"C19/inverse/{algo}/regulariser_inverted_matrix_starts_at_lambda_I_instead_of_I_over_lambda",
                 "sigma_inv is not the inverse of lambda*I + sum v v^T but exactly the inverse of I/lambda + sum v v^T: the matrix is "
                 "(re-)initialised to lambda*I although (lambda*I)^-1 = I/lambda", op=opk, lamb=ref.lam, decisions_since_init=ref.n,
                 rel_err_vs_statement=err, rel_err_vs_inverted_regulariser=err_sw, diag_head=np.diag(m)[:3].tolist())
    else:
        ctx.fail(f"C19/inverse/{algo}/not_the_inverse_of_the_gram_matrix/after_{opk}",
                 "sigma_inv differs from (lambda*I + sum of v v^T over the arms chosen since the last initialisation)^-1", op=opk,
                 lamb=ref.lam, decisions_since_init=ref.n, rel_err=err, rel_err_vs_inverted_regulariser=err_sw)


# ---------------------------------------------------------------------------
# the interpreter
# ---------------------------------------------------------------------------

def run_history(case, ctx):
    algo = case["algo"]
    try:
        agent = build(case)
    except Exception as e:  # noqa: BLE001 - precondition only
        ctx.label(f"setup-failed:{type(e).__name__}")
        return
    if not isinstance(getattr(agent, "sigma_inv", None), torch.Tensor):
        ctx.label("no-sigma_inv")
        return
    lam = float(case["lamb"])
    ref = Ref(lam, sum(n for _, n in layout(agent)))
    bystanders = []  # [(relation, object, matrix snapshot)]
    status = {}
    check_invariants(ctx, case, agent, ref, "init", case["seed"] + 7, status)
    acts, structural_between, pending_structural = 0, 0, False
    kinds_seen = []
    for i, op in enumerate(case["ops"]):
        k = op[0]
        before = agent.sigma_inv.detach().clone()
        if k == "act":
            opk = "act"
            context = context_for(case, op[1])
            bits = [(op[2] >> j) & 1 for j in range(case["arms"])]
            mask = np.array(bits, dtype=np.float32) if any(bits) and not all(bits) else None
            try:
                feats = features(agent, context)
            except Exception as e:  # noqa: BLE001
                ctx.label(f"feature-probe-failed:{type(e).__name__}")
                return
            ag.seed_all(op[1])
            with ctx.promised(f"C19/get_action/{algo}", op_index=i, previous_ops=[o[0] for o in case["ops"][:i]][-4:]):
                arm = agent.get_action(context, mask) if mask is not None else agent.get_action(context)
            arm = int(arm)
            if not 0 <= arm < case["arms"]:
                ctx.label("arm-out-of-range")
                return
            ctx.label("masked-act" if mask is not None else "unmasked-act")
            v = feats[arm]
            ref.S += np.outer(v, v)
            ref.n += 1
            acts += 1
            if pending_structural and acts >= 2:
                structural_between += 1
            pending_structural = False
            # update law relative to the previous matrix (whatever it was)
            if tuple(agent.sigma_inv.shape) == tuple(before.shape) == (len(v), len(v)):
                b = before.double().numpy()
                want = b - (b @ np.outer(v, v) @ b) / (1.0 + v @ b @ v)
                got = sigma(agent)
                e = rel_err(got, want)
                if e > 1e-4:
                    # which rank-one step was taken instead?
                    cls = "not_a_sherman_morrison_step_of_the_chosen_arm"
                    for j in range(case["arms"]):
                        w = feats[j]
                        if j != arm and rel_err(got, b - (b @ np.outer(w, w) @ b) / (1.0 + w @ b @ w)) <= 1e-4:
                            cls = "rank_one_step_with_the_feature_of_another_arm"
                    if cls.startswith("not_") and rel_err(got, b - (b @ np.outer(v, v) @ b)) <= 1e-4:
                        cls = "denominator_1_plus_vSv_missing"
                    if np.array_equal(got, b):
                        cls = "matrix_not_updated_by_the_decision"
                    ctx.fail(f"C19/update/{algo}/{cls}", "after get_action the matrix is not sigma - sigma v v^T sigma / (1 + v^T sigma v) "
                             "for the feature v of the returned arm (so sigma'^-1 - sigma^-1 != v v^T)", op_index=i, arm=arm, rel_err=e,
                             masked=mask is not None)
                else:
                    ctx.label("update_err" + _bucket(e))
        elif k == "learn":
            opk = "learn"
            try:
                ag.seed_all(op[1])
                agent.learn(batch_for(case, agent, op[1]))
            except Exception as e:  # noqa: BLE001 - learning is C08/C20's subject
                ctx.label(f"op-failed:learn:{type(e).__name__}")
                return
            if tuple(agent.sigma_inv.shape) == tuple(before.shape) and not torch.equal(agent.sigma_inv, before):
                ctx.fail(f"C19/learn/{algo}/matrix_changed_by_learn", "learn() changed sigma_inv although no arm was chosen", op_index=i)
        elif k == "mutate":
            opk = f"mutate_{op[1]}"
            old_layout = layout(agent)
            try:
                if op[1] == "arch_direct":
                    # the public Mutations.architecture_mutate(individual) called on its own (it applies the mutation hook itself)
                    agent = hist.make_mutations("arch", op[2]).architecture_mutate(agent)
                else:
                    agent = hist.mutate(agent, op[1], op[2])
                new_layout = layout(agent)
            except Exception as e:  # noqa: BLE001 - the mutation machinery is C02-C04's subject
                ctx.label(f"op-failed:mutate_{op[1]}:{type(e).__name__}")
                return
            resized = new_layout != old_layout
            ctx.label(f"mutation={op[1]}" + (":output_layer_resized" if resized else ""))
            ctx.label(f"mut={agent.mut}")
            P = sum(n for _, n in new_layout)
            m = sigma(agent) if isinstance(getattr(agent, "sigma_inv", None), torch.Tensor) else None
            if m is not None and m.shape == (P, P):
                if is_scaled_identity(m):
                    if ref.n:
                        ctx.label("reinitialisation-recognised-after-decisions")
                    # a fresh matrix is the inverse of (current lambda) * I: an RL-hyperparameter mutation may have moved lambda
                    if float(agent.lamb) != ref.lam:
                        ctx.label("lambda-mutated-before-reinitialisation")
                    ref = Ref(float(agent.lamb), P)
                elif not resized and np.array_equal(m, before.double().numpy()):
                    ctx.label("matrix-carried-over-mutation")
                else:
                    carried = Ref(ref.lam, P)
                    carried.S, carried.n = carry_over(ref.S, old_layout, new_layout), ref.n
                    if rel_err(m, carried.inv_stmt()) <= REL or rel_err(m, carried.inv_swapped()) <= REL:
                        ctx.label("matrix-carried-over-resize")
                        ref = carried
                    else:
                        ctx.abort(f"C19/mutation/{algo}/{op[1]}/matrix_neither_reinitialised_nor_carried_over",
                                  "after a mutation round sigma_inv is neither a fresh c*I of the new size nor the previous matrix "
                                  "(re-indexed to the resized output layer)", op_index=i, resized=resized, mut=str(agent.mut))
            pending_structural = pending_structural or acts >= 1
            kinds_seen.append(op[1])
        elif k == "clone":
            opk = "clone"
            try:
                child = agent.clone()
            except Exception as e:  # noqa: BLE001 - C01's subject
                ctx.label(f"op-failed:clone:{type(e).__name__}")
                return
            if isinstance(getattr(child, "sigma_inv", None), torch.Tensor) and tuple(child.sigma_inv.shape) == tuple(before.shape):
                if not torch.equal(child.sigma_inv, before):
                    cls = "reinitialised_instead_of_copied" if is_scaled_identity(sigma(child)) else "differs_from_parent"
                    ctx.fail(f"C19/clone/{algo}/matrix_{cls}", "the clone's sigma_inv differs from its parent's", op_index=i,
                             decisions_since_init=ref.n)
                    if cls.startswith("reinit"):
                        pass  # reference stays carried over: the inverse clause reports on every later op of an excluded round
            if op[1] % 2 == 0:
                bystanders.append(("parent", agent, agent.sigma_inv.detach().clone()))
                agent = child
                ctx.label("clone:continue-on-clone")
            else:
                bystanders.append(("clone", child, child.sigma_inv.detach().clone()))
                ctx.label("clone:continue-on-parent")
            pending_structural = pending_structural or acts >= 1
            kinds_seen.append("clone")
        elif k == "reload":
            opk = "reload"
            d = tempfile.mkdtemp(prefix="vpc19_")
            try:
                path = os.path.join(d, "agent.pt")
                agent.save_checkpoint(path)
                agent = type(agent).load(path)
            except Exception as e:  # noqa: BLE001 - C07's subject
                ctx.label(f"op-failed:reload:{type(e).__name__}")
                return
            finally:
                shutil.rmtree(d, ignore_errors=True)
            if isinstance(getattr(agent, "sigma_inv", None), torch.Tensor) and tuple(agent.sigma_inv.shape) == tuple(before.shape):
                if not torch.equal(agent.sigma_inv, before):
                    cls = "reinitialised_instead_of_restored" if is_scaled_identity(sigma(agent)) else "differs_from_saved"
                    ctx.fail(f"C19/reload/{algo}/matrix_{cls}", "sigma_inv after save_checkpoint + load differs from the saved agent's",
                             op_index=i, decisions_since_init=ref.n)
            pending_structural = pending_structural or acts >= 1
            kinds_seen.append("reload")
        else:
            raise ValueError(op)
        if not isinstance(getattr(agent, "sigma_inv", None), torch.Tensor):
            ctx.label("no-sigma_inv")
            return
        check_invariants(ctx, case, agent, ref, opk, case["seed"] + 11 * (i + 1), status)
        for rel, obj, snap in bystanders:
            if tuple(obj.sigma_inv.shape) != tuple(snap.shape) or not torch.equal(obj.sigma_inv, snap):
                other = "clone" if rel == "parent" else "parent"
                ctx.fail(f"C19/independence/{algo}/{rel}_matrix_changed_by_{'decision' if k == 'act' else k}_of_its_{other}",
                         f"the {rel} left behind did nothing, yet its sigma_inv changed while its {other} ran '{k}'", op_index=i)
        ctx.label(f"op={k}")
    ctx.label(f"algo={algo}")
    ctx.label("lambda=1" if lam == 1.0 else "lambda!=1")
    ctx.label(f"arms={case['arms']}")
    ctx.label(f"dim={case['dim']}")
    ctx.label(f"out_params={sum(n for _, n in layout(agent))}")
    if acts >= 3 and structural_between >= 1:
        ctx.nontrivial({"a": algo, "l": lam, "arms": case["arms"], "dim": case["dim"], "h": case["head"],
                        "ops": [o[:2] if o[0] in ("mutate", "clone") else o[0] for o in case["ops"]]})


# ---------------------------------------------------------------------------
# strategy
# ---------------------------------------------------------------------------

@st.composite
def case_strategy(draw, tier):
    thorough = tier == "thorough"
    arms = draw(st.integers(2, 6))
    kinds = ["act"] * 6 + ["learn", "mutate", "mutate_arch", "mutate_arch", "clone", "reload"]

    def op_of(kind):
        if kind == "act":
            return st.tuples(st.just("act"), st.integers(0, 9999), st.integers(0, 2 ** arms - 1))
        if kind == "learn":
            return st.tuples(st.just("learn"), st.integers(0, 999))
        if kind == "mutate":
            return st.tuples(st.just("mutate"), st.sampled_from(hist.MUT_KINDS), st.integers(0, 999))
        if kind == "mutate_arch":
            return st.tuples(st.just("mutate"), st.sampled_from(["arch", "arch", "arch_direct"]), st.integers(0, 999))
        if kind == "clone":
            return st.tuples(st.just("clone"), st.integers(0, 1))
        return st.tuples(st.just("reload"))

    op = st.sampled_from(kinds).flatmap(op_of)
    length = draw(st.one_of(st.integers(0, 25), st.integers(8, 25)))
    lam = draw(st.one_of(st.just(1.0), st.sampled_from(LAMBDAS), st.sampled_from(LAMBDAS),
                         st.integers(10, 1000).map(lambda i: i / 100.0)))
    return {"lamb_mutable": draw(st.booleans()), "algo": draw(st.sampled_from(ALGOS)), "dim": draw(st.integers(1, 6)), "arms": arms, "lamb": lam,
            "gamma": draw(st.sampled_from(GAMMAS)), "head": draw(st.sampled_from([[4], [8], [12], [8, 6], [20]])),
            "activation": draw(st.sampled_from(ACTIVATIONS)), "seed": draw(st.integers(0, 9999)),
            "ops": [list(o) for o in draw(st.lists(op, min_size=length // 2, max_size=length))]}


PROPERTY = Property(
    id="C19",
    level="exploration",
    rule=("generated histories (<= 25 ops) of get_action(context, mask) / learn / each Mutations kind / clone-and-continue (on the clone or on "
          "the parent, the other one watched as bystander) / checkpoint round-trip on NeuralUCB and NeuralTS agents with context dim 1-6, arms 2-6, "
          "lambda in [0.1,10] (1.0 in about a quarter of the cases), gamma, output layers of 5-40 parameters; after every op a float64 reference "
          "Z = lambda I + sum v v^T (features recomputed with autograd for the returned arm) decides inverse (rel 1e-3), Sherman-Morrison step "
          "relative to the previous matrix (rel 1e-4), symmetry, positive definiteness, non-negative bonus of every arm, side == number of output "
          "layer parameters, matrix copied by clone / restored by load / untouched by learn / independent between clone and parent. "
          "A case is non-trivial when it holds >= 3 get_action calls with >= 1 mutation, clone or reload between two of them; distinct by "
          "(algorithm, lambda, arms, dim, head, op kinds in order)"),
    obligations=[
        Obligation("gram_inverse_history", run_history, strategy=case_strategy,
                   examples={"quick": 60, "thorough": 500}, shards={"quick": 10, "thorough": 16},
                   shrink_budget={"quick": 40, "thorough": 300}),
    ],
    assumptions=["feature of an arm = d f(x_arm) / d(trainable parameters of actor.get_output_dense()) / sqrt(weight.size(0)); size(0) == 1 for every "
                 "value network, so a wrong width factor is unobservable unless it reads another dimension",
                 "a mutation round may (re-)initialise the matrix (documented: init_params is the registered mutation hook); recognised from the matrix "
                 "being exactly c*I of the new size; clone and load must carry the matrix over",
                 "sigma_inv is the only window on the matrix: its absence is labelled, never a violation",
                 "crashes of learn / mutation / clone / save+load are other properties' subjects (labels op-failed:*); get_action on the domain is promised",
                 "tolerances: inverse 1e-3 and update 1e-4 relative to the max entry (float32 state, float64 reference), symmetry 1e-4 relative"],
    wanted_labels=["algo=NeuralUCB", "algo=NeuralTS", "lambda!=1", "lambda=1", "op=act", "op=learn", "op=mutate", "op=clone", "op=reload",
                   "masked-act", "mutation=arch:output_layer_resized", "clone:continue-on-clone", "clone:continue-on-parent"],
)
