"""C01 - a cloned agent is a faithful and fully independent copy of its parent."""
from __future__ import annotations

import gc
import re

import numpy as np
import torch
from hypothesis import strategies as st

from vp.core import engine
from vp.core.engine import Obligation, Property
from vp.gen import agents as ag
from vp.gen import histories as hist
from vp.obs import tensors as T

SINGLE_FAMS = ["vector", "image", "dict", "tuple", "discrete", "multidiscrete"]
MULTI_FAMS = ["vector", "image", "dict", "discrete"]


def _norm(path: str) -> str:
    """'tensors.actor_targets[1].encoder.x: ...' -> 'tensors.actor_targets' (signature granularity: section + attribute)"""
    head = path.split(":")[0].split(" ")[0]
    parts = head.split(".")
    return parts[0] + "." + re.sub(r"\[.*?\]", "", parts[1]) if len(parts) > 1 else parts[0]


def _structure(net):
    return [(n, type(m).__name__) for n, m in net.named_modules()]


def _setup(case, ctx):
    spec = case["spec"]
    try:
        hpc = ag.make_hp_config(spec["algo"]) if case.get("hpconf", True) else None
        agent = ag.build(spec, hp_config=hpc)
        for op in case["history"]:
            agent = hist.apply_op(agent, spec, op)
    except Exception as e:  # establishing the precondition failed: not this property's clause
        ctx.label(f"setup-failed:{type(e).__name__}")
        return None
    return agent


def _shared_names(agent):
    out = set()
    for g in agent.registry.groups:
        if g.shared is not None:
            for s in (g.shared if isinstance(g.shared, list) else [g.shared]):
                out.add(s)
    return out


def _eval_of(agent, shared_name):
    for g in agent.registry.groups:
        if g.shared is not None and shared_name in (g.shared if isinstance(g.shared, list) else [g.shared]):
            return g.eval
    return None


def check_faithful(ctx, P, C, algo, tag="faithful", share=False):
    sp, sc = T.snapshot(P), T.snapshot(C)
    diffs = T.diff(sp, sc)
    # one precisely recognised class: encoder_config without "activation" -> the encoder's output activation is None in
    # the parent and becomes the encoder's activation in every clone
    arch_d = [d for d in diffs if d.startswith("arch.")]
    if arch_d:
        only_out_act = True
        for k in sp["arch"]:
            a, b = sp["arch"][k], sc["arch"].get(k)
            if a != b:
                ea, eb = dict(a.get("encoder_config") or {}), dict((b or {}).get("encoder_config") or {})
                oa, ob = ea.pop("output_activation", None), eb.pop("output_activation", None)
                a2, b2 = dict(a, encoder_config=ea), dict(b or {}, encoder_config=eb)
                if not (a2 == b2 and oa is None and ob is not None):
                    only_out_act = False
        if only_out_act:
            ctx.abort("C01/faithful/encoder_output_activation_none_in_parent_set_in_clone",
                      "encoder_config without 'activation': the parent's encoder has output_activation=None, every clone "
                      "gets output_activation=<activation> and computes a different function", algo=algo, diffs=arch_d[:4])
    # architectures equal by description but different as built (the description no longer describes the network)
    if not arch_d:
        fp, fc = T.flat_networks(P), T.flat_networks(C)
        for k in fp:
            if k in fc and _structure(fp[k]) != _structure(fc[k]):
                ctx.abort("C01/faithful/built_modules_differ_though_descriptions_equal",
                          "parent and clone report the same constructor description but consist of different modules",
                          algo=algo, network=k, parent=_structure(fp[k])[-6:], clone=_structure(fc[k])[-6:])
    shared = _shared_names(C)
    resync = False
    if share:
        # share_encoders=True: every non-policy network's encoder holds a detached COPY of the policy's encoder taken at the last
        # hook (construction / mutation / clone / load), not a live view; after learn steps the parent's copy is stale while a
        # clone's is fresh -> one precisely recognised class
        stale = [d for d in diffs if d.startswith("tensors.") and ".encoder." in d and not d.startswith(f"tensors.{P.registry.policy}")]
        if stale:
            ctx.abort(f"C01/{tag}/shared_encoder_copy_differs", "share_encoders=True: the non-policy networks' encoder copies differ between "
                      "parent and clone (the parent's copy is only refreshed by hooks, the clone's was refreshed by clone())",
                      algo=algo, diffs=stale[:4])
    for d in diffs:
        m = re.match(r"tensors\.([A-Za-z_0-9]+)((\[\d+\])*)\.", d)
        if m and m.group(1) in shared:
            # allowance: the copy re-synchronised this target with its own online network
            ev = _eval_of(C, m.group(1))
            key_t, key_e = m.group(1) + m.group(2), ev + m.group(2)
            if key_e in sc["tensors"] and not T.tensors_equal(sc["tensors"][key_t], sc["tensors"][key_e]):
                resync = True
                continue
        ctx.fail(f"C01/{tag}/{_norm(d)}", f"clone differs from parent right after clone(): {d}", algo=algo, diffs=diffs[:6])
    return resync


def run_faithful_independent(case, ctx):
    spec = case["spec"]
    algo = spec["algo"]
    P = _setup(case, ctx)
    if P is None:
        return
    via_tournament = bool(case.get("via_tournament"))
    if via_tournament:
        # "earlier clones and tournament rounds ... every pair of (clone, clone)": the copies come out of TournamentSelection -
        # the returned elite and the first member of the new generation are two copies of the best agent (= P)
        P.fitness = [1.0]
    before = T.snapshot(P)
    with ctx.promised("C01/clone", algo=algo):
        if via_tournament:
            from agilerl.hpo.tournament import TournamentSelection

            rival = P.clone(index=P.index + 1)
            rival.fitness = [0.0]
            np.random.seed(case["obs_seed"])
            C1, new_pop = TournamentSelection(2, True, 2, 1).select([P, rival])
            C2, G = new_pop[0], None
            ctx.label("family-from-tournament(elite, first member)")
        else:
            C1 = P.clone()
            C2 = P.clone() if case["sibling"] else None
            G = C1.clone() if case.get("grand") else None
    d = T.diff(before, T.snapshot(P))
    if d:
        ctx.fail(f"C01/clone_changed_parent/{_norm(d[0])}", f"clone() changed the parent: {d[0]}", diffs=d[:5])
    share = bool(spec.get("share"))
    resync = check_faithful(ctx, P, C1, algo, share=share)
    if C2 is not None:
        check_faithful(ctx, P, C2, algo, share=share)
    if G is not None:
        check_faithful(ctx, C1, G, algo, tag="faithful_grandclone", share=share)
    # hp registry / list objects must not be shared by identity either (supporting, effect-decided below)
    # ---- behaviour: same greedy action --------------------------------------
    if not resync:
        with ctx.promised("C01/act", algo=algo):
            a = ag.act_greedy(P, spec, case["obs_seed"])
            b = ag.act_greedy(C1, spec, case["obs_seed"])
        ctx.check(np.array_equal(np.asarray(a), np.asarray(b)), "C01/behaviour/greedy_action_differs",
                  "parent and clone pick different greedy actions / values on the same observations", algo=algo,
                  parent=np.asarray(a).tolist(), clone=np.asarray(b).tolist())

    # ---- independence (effect based) ----------------------------------------
    family = {"parent": P, "clone": C1}
    if C2 is not None:
        family["sibling"] = C2
    if G is not None:
        family["grandclone"] = G
    who = case["who"] if case["who"] in family else "clone"
    others = {k: v for k, v in family.items() if k != who}
    snaps = {k: T.snapshot(v) for k, v in others.items()}
    lists_before = {k: (list(v.scores), list(v.fitness), list(v.steps)) for k, v in others.items()}
    actor = family[who]
    prog = case["program"]
    changed = False
    try:
        s0 = T.snapshot(actor)
        if prog[0] == "learn":
            for i in range(prog[1]):
                ag.seed_all(prog[2] + i)
                ag.learn_once(actor, spec, prog[2] + i)
        elif prog[0] == "act":
            ag.act_real(actor, spec, prog[1], k=3)
        elif prog[0] == "mutate":
            family[who] = actor = hist.mutate(actor, prog[1], prog[2])
        elif prog[0] == "lists":
            actor.scores.append(1.5)
            actor.fitness.append(2.5)
            actor.steps[-1] += 7
            actor.steps.append(3)
        elif prog[0] == "del":
            del family[who]
            actor = None
            if who == "parent":
                del P
            elif who == "clone":
                del C1
            elif who == "sibling":
                del C2
            elif who == "grandclone":
                del G
            gc.collect()
        if actor is not None:
            changed = bool(T.diff(s0, T.snapshot(actor))) or prog[0] in ("lists", "act")
        else:
            changed = True
    except Exception as e:
        ctx.label(f"program-failed:{type(e).__name__}")
    for k, v in others.items():
        d = T.diff(snaps[k], T.snapshot(v))
        if d:
            ctx.fail(f"C01/independence/{prog[0]}_changed_other/{_norm(d[0])}",
                     f"{prog[0]} on the {who} changed the {k}: {d[0]}", algo=algo, who=who, other=k, diffs=d[:6])
        now = (list(v.scores), list(v.fitness), list(v.steps))
        ctx.check(now == lists_before[k], "C01/independence/score_lists_shared",
                  f"{prog[0]} on the {who} changed the score/fitness/steps lists of the {k}", algo=algo)
    if prog[0] == "del":
        # survivors must still work
        for k, v in others.items():
            with ctx.promised("C01/independence/survivor_unusable_after_del", algo=algo):
                ag.learn_once(v, spec, 1)

    ctx.label(f"algo={algo}")
    ctx.label(f"obs={spec.get('obs')}")
    if spec.get("share"):
        ctx.label("share_encoders")
    ctx.label(f"program={prog[0]}" + (f":{prog[1]}" if prog[0] == "mutate" else ""))
    if resync:
        ctx.label("resync-allowance-used")
    n_learn = sum(1 for o in case["history"] if o[0] in ("learn", "act"))
    if n_learn >= 1 and changed:
        ctx.nontrivial({"a": algo, "o": spec.get("obs"), "h": [o[0] + (":" + o[1] if o[0] == "mutate" else "") for o in case["history"]],
                        "w": who, "p": prog[:2]})


def _rms_state(w):
    r = getattr(w, "obs_rms", None)
    if r is None:
        return None
    items = r.items() if isinstance(r, dict) else enumerate(r) if isinstance(r, (list, tuple)) else [("", r)]
    return {str(k): [np.asarray(getattr(v, a)).astype(np.float64).tolist() for a in ("mean", "var", "count")] for k, v in items}


def run_wrapped(case, ctx):
    """The same clauses for an agent that lives inside the library's RSNorm wrapper (its whole history - acting, learning,
    mutations, earlier clones - runs THROUGH the wrapper, as a population of wrapped agents is used by the training loops)."""
    from agilerl.wrappers.agent import RSNorm

    spec = case["spec"]
    algo = spec["algo"]
    try:
        W = RSNorm(ag.build(spec, hp_config=ag.make_hp_config(algo)))
        for op in case["history"]:
            W = hist.apply_op(W, spec, op)
    except Exception as e:  # noqa: BLE001 - establishing the precondition failed
        ctx.label(f"wrapped-setup-failed:{type(e).__name__}")
        return
    P = W.agent
    before, rms_before = T.snapshot(P), _rms_state(W)
    with ctx.promised("C01/wrapped/clone", algo=algo):
        C = W.clone()
    ctx.check(type(C) is type(W), "C01/wrapped/clone_is_not_wrapped", "clone() of a wrapped agent is not wrapped", got=type(C).__name__)
    d = T.diff(before, T.snapshot(P))
    if d:
        ctx.fail(f"C01/wrapped/clone_changed_parent/{_norm(d[0])}", f"clone() changed the wrapped parent: {d[0]}", diffs=d[:5])
    resync = check_faithful(ctx, P, C.agent, algo, tag="wrapped/faithful")
    ctx.check(_rms_state(C) == rms_before, "C01/wrapped/running_statistics_differ", "the clone's observation statistics differ from the parent's",
              parent=rms_before, clone=_rms_state(C))
    if not resync:
        with ctx.promised("C01/wrapped/act", algo=algo):
            a = ag.act_greedy(W, spec, case["obs_seed"])
            b = ag.act_greedy(C, spec, case["obs_seed"])
        ctx.check(np.array_equal(np.asarray(a), np.asarray(b)), "C01/wrapped/greedy_action_differs",
                  "wrapped parent and its clone pick different greedy actions on the same observations", algo=algo,
                  parent=np.asarray(a).tolist(), clone=np.asarray(b).tolist())
    # independence: the clone acts, learns and is mutated; the parent (agent and statistics) must not move
    snap, rms = T.snapshot(P), _rms_state(W)
    try:
        ag.act_real(C, spec, case["obs_seed"] + 1, k=2)
        ag.seed_all(case["obs_seed"])
        ag.learn_once(C, spec, case["obs_seed"])
        C = hist.mutate(C, case["mut"], case["obs_seed"])
        ag.learn_once(C, spec, case["obs_seed"] + 1)
    except Exception as e:  # noqa: BLE001
        ctx.label(f"wrapped-program-failed:{type(e).__name__}")
    d = T.diff(snap, T.snapshot(P))
    if d:
        ctx.fail(f"C01/wrapped/independence/{_norm(d[0])}", f"acting / training / mutating the clone changed the wrapped parent: {d[0]}", diffs=d[:5])
    ctx.check(_rms_state(W) == rms, "C01/wrapped/independence/running_statistics_shared",
              "acting with the clone moved the parent's observation statistics")
    ctx.label(f"wrapped:algo={algo}")
    kinds = [o[0] + (":" + o[1] if o[0] == "mutate" else "") for o in case["history"]]
    for k in set(kinds):
        ctx.label(f"wrapped:history-has:{k}")
    if "clone" in kinds and any(k.startswith("mutate:arch") for k in kinds[kinds.index("clone"):]):
        ctx.label("wrapped:clone-then-architecture-mutation-then-clone")
    if any(k in ("learn", "act") for k in kinds):
        ctx.nontrivial({"w": 1, "a": algo, "o": spec.get("obs"), "h": kinds})


@st.composite
def wrapped_strategy(draw, tier):
    algo = draw(st.sampled_from(engine.stratum(ag.SINGLE_DISCRETE + ag.SINGLE_CONT)))
    spec = {"algo": algo, "obs": draw(st.sampled_from(["vector", "vector", "image"])), "obsv": draw(st.integers(0, 2)),
            "actv": draw(st.integers(0, 2)), "seed": draw(st.integers(0, 9999)), "netact": True}
    if algo in ag.SINGLE_CONT:
        spec["act"] = draw(st.sampled_from(["box", "box_asym"]))
    history = draw(hist.history_strategy(4 if tier == "quick" else 8, kinds=("learn", "mutate", "clone", "act")))
    if draw(st.booleans()):
        # an earlier clone, then a mutation applied through the wrapper, then (in run_wrapped) the clone under test
        history = history[:2] + [["clone"], ["mutate", draw(st.sampled_from(["arch", "arch", "act", "param"])), draw(st.integers(0, 999))]] + history[2:3]
    return {"spec": spec, "history": history, "obs_seed": draw(st.integers(0, 999)), "mut": draw(st.sampled_from(["arch", "param", "act", "rl_hp"]))}


def run_same_update(case, ctx):
    """From the faithful state, parent and clone compute the same update from the same batch."""
    spec = case["spec"]
    algo = spec["algo"]
    P = _setup(case, ctx)
    if P is None:
        return
    with ctx.promised("C01/clone", algo=algo):
        C = P.clone()
    resync = check_faithful(ctx, P, C, algo, share=bool(spec.get("share")))
    sp, sc = T.snapshot(P), T.snapshot(C)
    if resync or T.diff(sp, sc, sections=("tensors", "arch")):
        ctx.label("resync-skip")  # target legitimately (or not: decided by the other obligation) differs
        return
    losses = []
    for a in (P, C):
        out = []
        try:
            for i in range(case["steps"]):
                ag.seed_all(case["batch_seed"] + i)
                out.append(ag.learn_once(a, spec, case["batch_seed"] + i))
        except Exception as e:
            ctx.label(f"learn-failed:{type(e).__name__}")
            return
        losses.append(repr(out))
    ctx.check(losses[0] == losses[1], "C01/same_update/loss_differs",
              "parent and clone return different losses for the same batches and seeds", algo=algo,
              parent=losses[0][:300], clone=losses[1][:300])
    d = T.diff(T.snapshot(P), T.snapshot(C), sections=("tensors", "opts"))
    if d:
        ctx.fail(f"C01/same_update/{_norm(d[0])}", f"after identical learn steps parent and clone differ: {d[0]}",
                 algo=algo, diffs=d[:6])
    ctx.label(f"algo={algo}")
    if any(o[0] == "learn" for o in case["history"]):
        ctx.nontrivial({"a": algo, "o": spec.get("obs"), "h": [o[0] for o in case["history"]], "s": case["steps"]})


# ----------------------------------------------------------------------------

@st.composite
def spec_strategy(draw, algos=ag.ALL_ALGOS):
    algo = draw(st.sampled_from(engine.stratum(algos)))
    if algo in ag.BANDITS:
        fam = "vector"
    elif algo in ag.MULTI_OFF + ag.MULTI_ON:
        fam = draw(st.sampled_from(MULTI_FAMS))
    else:
        fam = draw(st.sampled_from(SINGLE_FAMS))
    spec = {"algo": algo, "obs": fam, "obsv": draw(st.integers(0, 2)), "actv": draw(st.integers(0, 2)),
            "seed": draw(st.integers(0, 9999)), "netact": draw(st.integers(0, 7)) != 0}
    if algo in ag.SINGLE_CONT + ["PPO"]:
        spec["share"] = draw(st.booleans())
    if algo in ag.SINGLE_CONT:
        spec["act"] = draw(st.sampled_from(["box", "box_asym", "box_perdim"]))
    elif algo == "PPO":
        spec["act"] = draw(st.sampled_from(["discrete", "box", "multidiscrete", "multibinary"]))
    elif algo == "IPPO":
        spec["act"] = draw(st.sampled_from(["discrete", "box"]))
    elif algo in ag.MULTI_OFF:
        spec["act"] = draw(st.sampled_from(["discrete", "box"]))
    return spec


@st.composite
def fi_strategy(draw, tier):
    spec = draw(spec_strategy())
    max_ops = 4 if tier == "quick" else 10
    program = draw(st.one_of(
        st.tuples(st.just("learn"), st.integers(2, 3), st.integers(0, 999)),
        st.tuples(st.just("learn"), st.integers(2, 3), st.integers(0, 999)),
        st.tuples(st.just("mutate"), st.sampled_from(hist.MUT_KINDS[1:]), st.integers(0, 999)),
        st.tuples(st.just("lists")),
        st.tuples(st.just("del")),
        st.tuples(st.just("act"), st.integers(0, 999)),
    ))
    history = draw(hist.history_strategy(max_ops))
    if spec["algo"] in ag.BANDITS or draw(st.integers(0, 5)) == 0:
        # acting is where bandits (confidence matrix) and noisy learners keep mutable state: make sure it happens before and after the clone
        history = history + [["act", draw(st.integers(0, 999))]]
        if draw(st.booleans()):
            program = ("act", draw(st.integers(0, 999)))
    return {"spec": spec, "hpconf": draw(st.booleans()) or True,
            "history": history,
            "sibling": draw(st.booleans()), "grand": draw(st.booleans()),
            "who": draw(st.sampled_from(["parent", "clone", "sibling", "grandclone"])),
            "program": list(program), "obs_seed": draw(st.integers(0, 999)), "via_tournament": draw(st.integers(0, 4)) == 0}


@st.composite
def su_strategy(draw, tier):
    spec = draw(spec_strategy())
    return {"spec": spec, "hpconf": True,
            "history": draw(hist.history_strategy(3 if tier == "quick" else 8)),
            "steps": draw(st.integers(1, 3)), "batch_seed": draw(st.integers(0, 999))}


PROPERTY = Property(
    id="C01",
    level="exploration",
    rule=("(algorithm x obs family x action kind) x history of learn / 5 mutation kinds / clone-and-continue / tournament round, then clone "
          "(+ sibling, + grand-clone) and a program (learn k steps, one mutation, list edits, del) on ONE family member; the others' "
          "snapshots (weights incl. target tensors, optimizer moments/steps, hp registry, score lists) must be bit-identical. "
          "non-trivial = >=1 learn step before the clone (optimizer state exists) and the program really changed its agent; "
          "distinct by (algorithm, family, op-kind sequence, who, program)"),
    obligations=[
        Obligation("faithful_and_independent", run_faithful_independent, strategy=fi_strategy,
                   examples={"quick": 40, "thorough": 400}, shards={"quick": 12, "thorough": 16},
                   shrink_budget={"quick": 60, "thorough": 300}),
        Obligation("same_update", run_same_update, strategy=su_strategy,
                   examples={"quick": 30, "thorough": 300}, shards={"quick": 4, "thorough": 16},
                   shrink_budget={"quick": 60, "thorough": 300}),
        Obligation("wrapped_agent", run_wrapped, strategy=wrapped_strategy,
                   examples={"quick": 25, "thorough": 250}, shards={"quick": 6, "thorough": 16},
                   shrink_budget={"quick": 60, "thorough": 300}),
    ],
    assumptions=["share_encoders drawn True/False for PPO/DDPG/TD3 (constructible since the Protocol-isinstance repair)",
                 "weights are observed through parameters, buffers and plain tensor attributes of sub-modules (tensordict to_module targets)",
                 "exact comparisons: one torch thread, same seeds, same op order"],
)
