"""C04 - mutations reuse learned weights; an unchanged architecture computes the same function; clone reproduces outputs."""
from __future__ import annotations

from vp.core.engine import Property
from vp.gen import archwalk as W


def run_walk(case, ctx):
    W.run_chain(case, ctx, "C04")


PROPERTY = Property(
    id="C04",
    level="exploration",
    rule=("the same clone-and-mutate chains as C03 (all module and network classes, tight and default bounds, explicit and internally drawn "
          "arguments); every parameter is overwritten by seeded noise before the chain and again after every step (stands for training). Per "
          "step: for every parameter name present before and after the mutation the values agree on the common index range in ALL dims "
          "(same-shape tensors identical) - normalisation parameters that are reset on a resize are reported under their own signature; if the "
          "architecture descriptor is unchanged the outputs on batches of 1, 2, n rows are bit-equal (eval and train mode); before every "
          "step and at the end clone()(x) == m(x) bit-equal. non-trivial = the chain really resized >= 1 tensor or hit a bounded no-op; "
          "distinct by (class/space label, bounds regime, sequence of (method, effect tag)); grown and shrunk shapes are labelled separately."),
    obligations=W.make_obligations(run_walk),
    assumptions=[
        "only freshly cloned networks are mutated, once each (what Mutations.architecture_mutate does)",
        "exceptions raised by clone()/mutation belong to C03; here they end the chain under a label",
        "outputs are compared bit-exactly: same process, one thread, same torch seed before every forward (stochastic heads, noisy layers after reset_noise())",
        "buffers (BatchNorm running statistics, noise samples) are not 'weights': the no-op clause is judged in both modes with the check's own train-mode side effects restored",
    ],
    wanted_labels=["class=EvolvableMLP", "class=EvolvableCNN/Conv2d", "class=EvolvableCNN/Conv3d", "class=EvolvableLSTM", "class=EvolvableSimBa",
                   "class=EvolvableResNet", "resized:grown", "resized:shrunk", "bounded-no-op", "effect=direct"],
)
