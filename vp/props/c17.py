"""C17 - advantage estimation follows its definition, respects episode boundaries, rows stay aligned.

What is driven: the real ``PPO.learn`` / ``IPPO.learn`` on generated rollouts shaped exactly as ``train_on_policy`` /
``train_multi_agent_on_policy`` assemble them: per step a list entry (PPO) or per agent a list (IPPO) of

    states (E, *obs)   actions (E, ...)   log_probs   rewards (E,)   dones (E,)   values      next_state (E, *obs)  next_done (E,)
    PPO : actions as ``PPO.get_action`` returns them ((E,) Discrete, (E, k) otherwise), log_probs / values (E,) float32
    IPPO: per agent; actions (E, k) (Discrete: (E, 1)), log_probs / values (E, 1) float32 (``disassemble_homogeneous_outputs``)

(only vectorised environments, E >= 1: the non-vectorised branches of the loops are C20's subject).

The ``dones`` convention (read off the loops, not guessed).  Both loops do, per step,
``dones.append(done); ...; done = next_done`` with ``done = np.zeros(num_envs)`` before the first step and
``next_done = term | trunc`` of the step just taken.  So the STORED ``dones[t]`` is the done flag produced by step t-1
("the episode ended BEFORE step t; state t is the first observation of a new episode"), ``dones[0]`` is always 0 in the loops (a third of the generated rollouts draw it nevertheless, see ``Rollout.experiences``), and the
flag produced by the last step only travels as ``next_done``.  The statement's d_{t+1} ("episode over after step t") is
therefore stored ``dones[t+1]`` for t < T-1 and ``next_done`` for t = T-1.  A case draws, per (agent, env), the bit mask
of the flags PRODUCED by steps 0..T-1 (bit t = d_{t+1}); the rollout stores them one step late exactly as the loops do
(dtypes too: first entry float64 zeros, later entries / next_done int8).

Tags.  Every cell (agent k, step t, env e) has ``code = 1 + (k*T + t)*E + e`` (<= 192).  Every observation leaf carries
``code/256`` (uint8 leaves: ``code``) in its first element, Box actions carry ``code/256`` in their first component,
``log_prob = -code/128`` and ``value = (drawn multiple of 1/8) + code/2048`` - all exact in float32 and distinct, so each
flattened row decodes back to the cell each of its columns came from.

Observation of the computation (no source hooks): for the duration of ``learn`` only, the module-level name
``get_experiences_samples`` of ``agilerl.algorithms.ppo`` / ``agilerl.algorithms.ippo`` is replaced by a recording
pass-through.  It receives the complete flattened ``(states, actions, log_probs, advantages, returns, values)`` on
every minibatch call (one block per shared policy for IPPO).  If the name is gone, or ``learn`` returns without ever
calling it, the run is a HARNESS ERROR (exit 2), never a violation.  The bootstrap value is obtained by calling the
learner's own critic on the same ``next_state`` right before ``learn``.

Oracles.
* ``gae``: float64 backward recursion per (agent, env) sequence exactly as the statement writes it; the advantage in a
  row is compared with the reference of the cell the row's VALUE column decodes to (so that a mere row mix-up is not
  reported as an arithmetic error); class = ``single_step_rollout`` (T = 1) / ``bootstrap_segment`` (all disagreeing cells
  lie after the last interior episode end of their sequence, i.e. only the handling of next_value / next_done can be
  wrong) / ``recursion``.  ``returns``: returns[i] = advantages[i] + values[i] of the same row.
* ``rows``: the cells decoded from actions / log_probs / values of a row must be the cell decoded from its observation;
  the signature lists the columns that belong to another cell.  ``advantage`` is listed when advantages are correct
  estimates sitting in rows other than those of their own values (an advantage that follows a displaced value is
  implied by ``value``, so the signature does not depend on whether the arithmetic is right as well).
* ``minibatch``: what the sampler hands to the loss is exactly the selected rows of the flattened batch.
* ``noleak`` (metamorphic): per sequence with an episode start s (interior stored done, or final next_done), rewards and
  values at steps >= s and the final next observation are replaced; advantages of steps < s must be numerically
  identical (``==``) in a second ``learn`` (the critic's weights have moved in between - that only changes values that
  follow the boundary as well).
"""
from __future__ import annotations

import os

import numpy as np
import torch
from gymnasium import spaces
from hypothesis import strategies as st

from vp.core.engine import HarnessError, Obligation, Property, site_of
from vp.gen import agents as ag
from vp.props import c17_loops

NAME = "get_experiences_samples"
GAE_FILES = ("ppo.py", "ippo.py", "algo_utils.py")  # where the GAE / regrouping / flattening code lives
REL = 1e-5


# ---------------------------------------------------------------------------------------------------------------
# spaces and learners from JSON
# ---------------------------------------------------------------------------------------------------------------

def make_obs_space(kind):
    if kind == "vector":
        return spaces.Box(0.0, 1.0, (3,), np.float32)
    if kind == "vector4":
        return spaces.Box(0.0, 1.0, (4,), np.float32)
    if kind == "image":
        return spaces.Box(0, 255, (2, 8, 8), np.uint8)
    if kind == "dict":
        return spaces.Dict({"vec": spaces.Box(0.0, 1.0, (3,), np.float32), "img": spaces.Box(0, 255, (2, 8, 8), np.uint8)})
    raise HarnessError(kind)


def make_act_space(kind, variant=0):
    if kind == "discrete":
        return spaces.Discrete(5 + variant)
    if kind == "multidiscrete":
        return spaces.MultiDiscrete([3, 4] if variant == 0 else [4, 2, 3])
    if kind == "box":
        return spaces.Box(-1.0, 1.0, (2 + variant,), np.float32)
    if kind == "box1":
        return spaces.Box(-1.0, 1.0, (1,), np.float32) if variant == 0 else spaces.Box(-1.0, 1.0, (2,), np.float32)
    raise HarnessError(kind)


def agent_ids_of(case):
    """IPPO: ids in the order the learner is given them.  groups = [A] or [A1, A2]; order 'grouped' | 'interleaved'"""
    groups = case["groups"]
    names = "ab"
    per = [[f"{names[g]}_{i}" for i in range(n)] for g, n in enumerate(groups)]
    if case.get("desc"):  # ids of a group in DESCENDING order: the learner's agent order is not the lexicographic one
        per = [p[::-1] for p in per]
    if case.get("order") == "interleaved" and len(per) == 2:
        out = []
        for i in range(max(len(p) for p in per)):
            for p in per:
                if i < len(p):
                    out.append(p[i])
        return out
    return [a for p in per for a in p]


class Learner:
    """the built agent plus what the harness needs to know about it"""

    def __init__(self, case):
        self.algo = case["algo"]
        self.obs_space = make_obs_space(case["obs"])
        ag.seed_all(case["wseed"])
        nc = ag.net_config(self.obs_space, self.algo, head=8, enc=8, latent=8)
        hp = dict(batch_size=4, lr=1e-4, learn_step=8, gamma=0.9, gae_lambda=0.8, update_epochs=1)
        if self.algo == "PPO":
            from agilerl.algorithms import PPO
            import agilerl.algorithms.ppo as mod

            self.ids = [None]
            self.act_of = {None: make_act_space(case["act"], 0)}
            self.agent = PPO(self.obs_space, self.act_of[None], net_config=nc, share_encoders=False, **hp)
            self.groups = [("PPO", [None])]
        else:
            from agilerl.algorithms import IPPO
            import agilerl.algorithms.ippo as mod

            self.ids = agent_ids_of(case)
            self.act_of = {a: make_act_space(case["act"], 0 if a.startswith("a_") else 1) for a in self.ids}
            self.agent = IPPO([self.obs_space for _ in self.ids], [self.act_of[a] for a in self.ids], list(self.ids),
                              net_config=nc, **hp)
            # one block of minibatches per shared policy, in this order
            self.groups = [(g, list(self.agent.homogeneous_agents[g])) for g in self.agent.shared_agent_ids]
        self.mod = mod
        self.k_of = {a: k for k, a in enumerate(self.ids)}

    def bootstrap(self, nxt):
        """(K, E) float64: the critic's value of every agent's final next observation, with the weights as they are now"""
        from agilerl.utils.algo_utils import preprocess_observation

        out = []
        with torch.no_grad():
            if self.algo == "PPO":
                o = self.agent.preprocess_observation(nxt[None])
                out.append(self.agent.critic(o).reshape(-1).double().numpy())
            else:
                for a in self.ids:
                    g = self.agent.get_homo_id(a)
                    critic = self.agent.critics[self.agent.shared_agent_ids.index(g)]
                    o = preprocess_observation(nxt[a], self.obs_space, self.agent.device, self.agent.normalize_images)
                    out.append(critic(o).reshape(-1).double().numpy())
        return np.stack(out)


# ---------------------------------------------------------------------------------------------------------------
# tagged rollouts
# ---------------------------------------------------------------------------------------------------------------

def _leaf_spaces(space):
    if isinstance(space, spaces.Dict):
        return list(space.spaces.items())
    return [(None, space)]


def _tagged_obs(space, codes, rng):
    """codes (E,) -> observation batch (E, *obs) whose every leaf carries the code in its first element"""
    out = {}
    E = len(codes)
    for key, leaf in _leaf_spaces(space):
        if leaf.dtype == np.uint8:
            x = rng.integers(0, 256, size=(E, *leaf.shape)).astype(np.uint8)
            x.reshape(E, -1)[:, 0] = codes
        else:
            x = rng.uniform(0, 1, size=(E, *leaf.shape)).astype(np.float32)
            x.reshape(E, -1)[:, 0] = codes / 256.0
        out[key] = x
    return out if isinstance(space, spaces.Dict) else out[None]


def _tagged_action(space, codes, rng, multi):
    E = len(codes)
    if isinstance(space, spaces.Discrete):
        a = rng.integers(0, space.n, size=(E,)).astype(np.int64)
        return a.reshape(E, 1) if multi else a
    if isinstance(space, spaces.MultiDiscrete):
        return np.stack([rng.integers(0, n, size=(E,)) for n in space.nvec], axis=1).astype(np.int64)
    a = rng.normal(size=(E, *space.shape)).astype(np.float32)
    a[:, 0] = codes / 256.0
    return a


class Rollout:
    """numpy truth of one drawn rollout: arrays indexed [k, t, e]"""

    def __init__(self, L: Learner, ro: dict):
        self.T, self.E, self.K = T, E, K = ro["T"], ro["E"], len(L.ids)
        self.gamma, self.lam = float(ro["gamma"]), float(ro["lam"])
        rng = np.random.default_rng(ro["seed"])
        k_, t_, e_ = np.meshgrid(np.arange(K), np.arange(T), np.arange(E), indexing="ij")
        self.code = 1 + (k_ * T + t_) * E + e_
        if self.code.max() > 255:
            raise HarnessError("too many cells for the tag encoding")
        masks = ro["dones"]
        self.d0 = [int(x) for x in ro.get("d0", [])]
        self.D = np.zeros((K, T, E), dtype=np.int64)  # D[k, t, e] = d_{t+1}: done flag PRODUCED by step t
        for k in range(K):
            for e in range(E):
                m = int(masks[k % len(masks)][e % len(masks[k % len(masks)])])
                for t in range(T):
                    self.D[k, t, e] = (m >> t) & 1
        self.rdtype = np.float32 if ro.get("rdtype") == "f32" else np.float64
        self.R = (rng.normal(size=(K, T, E)) * float(ro.get("rscale", 1.0))).astype(self.rdtype)
        self.V = self._values(rng, (K, T, E), self.code, float(ro.get("vscale", 1.0)))
        self.LP = (-self.code / 128.0).astype(np.float32)
        self.obs = [[_tagged_obs(L.obs_space, self.code[k, t], rng) for t in range(T)] for k in range(K)]
        self.act = [[_tagged_action(L.act_of[a], self.code[k, t], rng, L.algo == "IPPO") for t in range(T)]
                    for k, a in enumerate(L.ids)]
        self.nxt = [_tagged_obs(L.obs_space, np.zeros(E), rng) for _ in range(K)]

    @staticmethod
    def _values(rng, shape, code, scale):
        return (np.round(rng.normal(size=shape) * scale * 8.0) / 8.0 + code / 2048.0).astype(np.float32)

    def experiences(self, L: Learner):
        """the tuple the training loop hands to learn()"""
        T, E = self.T, self.E
        multi = L.algo == "IPPO"

        def col(x):  # IPPO stores per-agent (E, 1) log-probs / values
            return x.reshape(E, 1) if multi else x

        per = []
        for k in range(self.K):
            # stored dones[0] ("an episode ended before the rollout began"): always 0 in the library's loops, 1 when a caller
            # carries the flag over from the previous rollout.  d_0 does not occur in the recursion, so it must change nothing.
            d0 = self.d0[k % len(self.d0)] if self.d0 else 0
            first = np.array([float((d0 >> e) & 1) for e in range(E)])
            dones = [first] + [self.D[k, t - 1].astype(np.int8) for t in range(1, T)]
            per.append(dict(
                states=[self.obs[k][t] for t in range(T)], actions=[self.act[k][t] for t in range(T)],
                log_probs=[col(self.LP[k, t].copy()) for t in range(T)], rewards=[self.R[k, t].copy() for t in range(T)],
                dones=dones, values=[col(self.V[k, t].copy()) for t in range(T)],
                next_state=self.nxt[k], next_done=self.D[k, T - 1].astype(np.int8)))
        keys = ("states", "actions", "log_probs", "rewards", "dones", "values", "next_state", "next_done")
        if not multi:
            return tuple(per[0][f] for f in keys)
        return tuple({a: per[k][f] for k, a in enumerate(L.ids)} for f in keys)

    def next_state_dict(self, L):
        return {a: self.nxt[k] for k, a in enumerate(L.ids)}

    # -- reference ----------------------------------------------------------------------------------------------
    def reference(self, NV):
        """float64 GAE exactly as the statement writes it; returns (A, magnitude) indexed [k, t, e]"""
        g, lam = self.gamma, self.lam
        R, V, D = self.R.astype(np.float64), self.V.astype(np.float64), self.D.astype(np.float64)
        A = np.zeros_like(R)
        M = np.zeros_like(R)
        last = np.zeros((self.K, self.E))
        lastm = np.zeros((self.K, self.E))
        for t in reversed(range(self.T)):
            nnt = 1.0 - D[:, t]
            nv = NV if t == self.T - 1 else V[:, t + 1]
            delta = R[:, t] + g * nv * nnt - V[:, t]
            last = delta + g * lam * nnt * last
            lastm = np.abs(R[:, t]) + g * np.abs(nv) * nnt + np.abs(V[:, t]) + g * lam * nnt * lastm
            A[:, t], M[:, t] = last, lastm
        return A, M

    def interior_done(self):
        return bool(self.T >= 2 and self.D[:, : self.T - 1].any())

    # -- metamorphic partner --------------------------------------------------------------------------------------
    def perturbed_after_episode_start(self, L, seed):
        """copy whose rewards / values at or after one episode start per sequence (and the final next observation)
        are replaced.  Returns (rollout, start[k, e]) with start = T+1 where the sequence has no episode start."""
        import copy

        rng = np.random.default_rng(seed)
        P = copy.copy(self)
        P.R, P.V = self.R.copy(), self.V.copy()
        P.nxt = [(dict((kk, vv.copy()) for kk, vv in n.items()) if isinstance(n, dict) else n.copy()) for n in self.nxt]
        newR = (rng.normal(size=self.R.shape) * 3.0).astype(self.rdtype)
        newV = self._values(rng, self.V.shape, self.code, 3.0)
        start = np.full((self.K, self.E), self.T + 1, dtype=np.int64)
        for k in range(self.K):
            fresh = _tagged_obs(L.obs_space, np.zeros(self.E), rng)
            for e in range(self.E):
                cand = [t + 1 for t in range(self.T) if self.D[k, t, e]]  # step index s = first step of a new episode
                if not cand:
                    continue
                s = cand[int(rng.integers(0, len(cand)))]
                start[k, e] = s
                P.R[k, s:, e] = newR[k, s:, e]
                P.V[k, s:, e] = newV[k, s:, e]
                if isinstance(fresh, dict):
                    for kk in fresh:
                        P.nxt[k][kk][e] = fresh[kk][e]
                else:
                    P.nxt[k][e] = fresh[e]
        return P, start


# ---------------------------------------------------------------------------------------------------------------
# recording pass-through
# ---------------------------------------------------------------------------------------------------------------

def _clone(x):
    if isinstance(x, dict):
        return {k: _clone(v) for k, v in x.items()}
    if isinstance(x, (tuple, list)):
        return tuple(_clone(v) for v in x)
    return x.detach().clone() if isinstance(x, torch.Tensor) else np.array(x, copy=True)


class Recorder:
    def __init__(self, mod):
        self.mod = mod
        self.blocks = []  # [{"full": 6-tuple, "calls": [(idx, out)]}]
        self._ids = {}
        self._keep = []
        self.error = None

    def __enter__(self):
        if not hasattr(self.mod, NAME):
            raise HarnessError(f"{self.mod.__name__}.{NAME} no longer exists: the C17 observation point is gone")
        self.orig = getattr(self.mod, NAME)
        orig = self.orig

        def spy(idxs, *experiences):
            out = orig(idxs, *experiences)
            try:
                if len(experiences) != 6:
                    raise HarnessError(f"{NAME} now receives {len(experiences)} experience fields, 6 expected")
                key = id(experiences[4])
                if key not in self._ids:
                    self._keep.append(experiences)  # keeps the id unique for the duration of learn
                    self._ids[key] = len(self.blocks)
                    self.blocks.append({"full": tuple(_clone(x) for x in experiences), "calls": []})
                self.blocks[self._ids[key]]["calls"].append((np.array(idxs, copy=True), tuple(_clone(x) for x in out)))
            except Exception as e:  # noqa: BLE001 - an observer must not change the outcome
                self.error = self.error or repr(e)
            return out

        setattr(self.mod, NAME, spy)
        return self

    def __exit__(self, *exc):
        setattr(self.mod, NAME, self.orig)
        self._keep = []
        return False


def run_learn(L: Learner, rd: Rollout, ro: dict):
    """one real learn() under the recorder.  Returns (blocks, exception or None)"""
    L.agent.gamma, L.agent.gae_lambda = rd.gamma, rd.lam
    L.agent.batch_size = int(ro["batch_size"])
    ag.seed_all(ro["seed"])
    exp = rd.experiences(L)
    err = None
    with Recorder(L.mod) as rec:
        try:
            L.agent.learn(exp)
        except HarnessError:
            raise
        except Exception as e:  # noqa: BLE001 - classified by the caller
            err = e
    if rec.error is not None:
        raise HarnessError(f"observer failed: {rec.error}")
    if err is None and not rec.blocks:
        raise HarnessError(f"learn() returned without calling {L.mod.__name__}.{NAME}: the C17 observation point is gone")
    return rec.blocks, err


# ---------------------------------------------------------------------------------------------------------------
# decoding a flattened block
# ---------------------------------------------------------------------------------------------------------------

def _np(x):
    return x.detach().cpu().numpy() if isinstance(x, torch.Tensor) else np.asarray(x)


def _leaves(states):
    if isinstance(states, dict):
        return [(k, _np(v)) for k, v in states.items()]
    if isinstance(states, (tuple, list)):
        return [(i, _np(v)) for i, v in enumerate(states)]
    return [(None, _np(states))]


def _codes_of_leaf(arr, n):
    flat = arr.reshape(n, -1)[:, 0]
    if arr.dtype == np.uint8:
        return flat.astype(np.int64), np.ones(n, dtype=bool)
    x = flat.astype(np.float64) * 256.0
    c = np.rint(x)
    return c.astype(np.int64), np.abs(x - c) < 1e-3


def decode_block(L, rd, members, six, ctx, sig, details):
    """six = (states, actions, log_probs, advantages, returns, values).  Returns None when the block is not even
    row-shaped (reported) else a dict of per-row arrays."""
    states, actions, log_probs, adv, ret, val = six
    adv, ret, val, lp = (_np(x).astype(np.float64).reshape(-1) for x in (adv, ret, val, log_probs))
    n = ret.shape[0]
    ks = [L.k_of[a] for a in members]
    cells = [(k, t, e) for k in ks for t in range(rd.T) for e in range(rd.E)]
    code_to_cell = {int(rd.code[c]): j for j, c in enumerate(cells)}
    leaves = _leaves(states)
    a_np = _np(actions)
    if n == 1:
        # a batch of ONE row: the learners skip minibatches of one row by design and drop the row axis of such a batch
        # (reshape_from_space) - nothing is applied to anything; only the estimate itself is examined
        leaves = [(key, arr.reshape(1, -1)) for key, arr in leaves]
        a_np = a_np.reshape(1, -1)
    sizes = {"advantages": adv.shape[0], "values": val.shape[0], "log_probs": lp.shape[0]}
    for key, arr in leaves:
        sizes[f"states[{key}]" if key is not None else "states"] = arr.shape[0] if arr.ndim else 0
    sizes["actions"] = a_np.shape[0] if a_np.ndim else 0
    if len(set(sizes.values())) != 1 or n == 0 or any(arr.size % n for _, arr in leaves) or a_np.size % n:
        ctx.fail(f"{sig}/rows/columns_have_different_row_counts",
                 "the flattened observation / action / estimate columns do not have one row per sample", sizes=sizes, **details)
        return None
    # observation -> cell
    obs_cell = None
    for key, arr in leaves:
        c, exact = _codes_of_leaf(arr, n)
        cell = np.array([code_to_cell.get(int(ci), -1) if ex else -1 for ci, ex in zip(c, exact)])
        if obs_cell is None:
            obs_cell = cell
        elif not np.array_equal(obs_cell, cell):
            ctx.fail(f"{sig}/rows/observation_parts_of_different_cells",
                     "the parts of a composite observation in one row come from different (agent, env, step) cells",
                     part=key, **details)
    if (obs_cell < 0).any():
        ctx.fail(f"{sig}/rows/observation_not_of_this_rollout",
                 "a flattened row holds an observation that is not one this policy's agents saw in the rollout",
                 row=int(np.flatnonzero(obs_cell < 0)[0]), **details)
        return None
    # action of the row against the action stored for the observation's cell
    act_ok = np.ones(n, dtype=bool)
    a_rows = a_np.reshape(n, -1)
    for i in range(n):
        k, t, e = cells[obs_cell[i]]
        want = np.asarray(rd.act[k][t][e]).reshape(-1)
        act_ok[i] = a_rows[i].shape == want.shape and bool(np.all(a_rows[i] == want))
    # log-prob -> cell
    x = -lp * 128.0
    c = np.rint(x)
    lp_cell = np.array([code_to_cell.get(int(ci), -1) if abs(xi - ci) < 1e-3 else -1 for xi, ci in zip(x, c)])
    # value -> cell (values are distinct: spacing >= 1/2048)
    vcells = np.array([float(rd.V[cc]) for cc in cells])
    dist = np.abs(val[:, None] - vcells[None, :])
    val_cell = np.where(dist.min(axis=1) <= 1e-6, dist.argmin(axis=1), -1)
    return dict(n=n, cells=cells, obs_cell=obs_cell, act_ok=act_ok, lp_cell=lp_cell, val_cell=val_cell, adv=adv, ret=ret, val=val)


def cell_json(c):
    return {"agent_index": int(c[0]), "step": int(c[1]), "env": int(c[2])}


def check_block(ctx, L, rd, members, block, A_ref, M_ref, sig, details, who):
    """all row-level clauses on one flattened block; returns {cell: advantage} decoded through the value column (or None)"""
    d = decode_block(L, rd, members, block["full"], ctx, sig, details)
    if d is None:
        return None
    n, cells = d["n"], d["cells"]
    shared = "" if L.algo == "PPO" else ("/shared_policy" if len(members) >= 2 else "/single_agent")
    obs_cell, val_cell, lp_cell = d["obs_cell"], d["val_cell"], d["lp_cell"]
    est_cell = np.where(val_cell >= 0, val_cell, obs_cell)
    want_est = np.array([A_ref[cells[j]] for j in est_cell])
    tol_est = REL * np.maximum(1.0, np.array([M_ref[cells[j]] for j in est_cell]))
    gae_ok = np.abs(d["adv"] - want_est) <= tol_est

    # ---- the estimate is the GAE of the cell its value column belongs to ------------------------------------------
    adv_elsewhere = np.zeros(n, dtype=bool)
    if not gae_ok.all():
        # correct estimates in the wrong rows (every disagreeing one is the reference of another cell of this policy) are
        # a row mix-up, reported by the rows clause below; anything else is an arithmetic disagreement
        bad = np.flatnonzero(~gae_ok)
        all_ref = np.array([A_ref[c] for c in cells])
        all_tol = REL * np.maximum(1.0, np.array([M_ref[c] for c in cells]))
        if all((np.abs(d["adv"][i] - all_ref) <= all_tol).any() for i in bad):
            adv_elsewhere[bad] = True
    if not (gae_ok | adv_elsewhere).all():
        bad = np.flatnonzero(~gae_ok)
        if rd.T == 1:
            cls = "single_step_rollout"
        else:
            # a cell is in the bootstrap segment when no interior episode end separates it from the final step
            def in_tail(c):
                k, t, e = c
                return not rd.D[k, t: rd.T - 1, e].any()
            cls = "bootstrap_segment" if all(in_tail(cells[est_cell[i]]) for i in bad) else "recursion"
            cls += shared
        i = int(bad[0])
        ctx.fail(f"{sig}/gae/{cls}",
                 f"{who}: the advantage computed for a cell is not the generalised advantage estimate of its sequence "
                 f"(got {d['adv'][i]:.6g}, recursion gives {want_est[i]:.6g})",
                 row=i, cell=cell_json(cells[est_cell[i]]), got=float(d["adv"][i]), want=float(want_est[i]),
                 n_bad=int(len(bad)), rows=n, **details)
    # ---- returns = advantage + value of the same row ---------------------------------------------------------------
    ret_ok = np.abs(d["ret"] - (d["adv"] + d["val"])) <= REL * np.maximum(1.0, np.abs(d["adv"]) + np.abs(d["val"]))
    if not ret_ok.all():
        i = int(np.flatnonzero(~ret_ok)[0])
        ctx.fail(f"{sig}/returns/not_advantage_plus_value", f"{who}: returns differ from advantage + value of the same row",
                 row=i, ret=float(d["ret"][i]), advantage=float(d["adv"][i]), value=float(d["val"][i]), **details)
    # ---- every column of a row belongs to the cell of the row's observation ------------------------------------------
    if (val_cell < 0).any():
        ctx.fail(f"{sig}/rows/value_not_of_this_rollout", f"{who}: a flattened row holds a value that no cell of this policy's agents had",
                 row=int(np.flatnonzero(val_cell < 0)[0]), **details)
    wrong = {"action": ~d["act_ok"], "log_prob": lp_cell != obs_cell, "value": val_cell != obs_cell,
             "advantage": adv_elsewhere}  # (an advantage that merely sits in the row of its own value is implied by "value")
    mis = sorted(k for k, v in wrong.items() if v.any())
    if mis:
        i = int(np.flatnonzero(np.any([wrong[k] for k in mis], axis=0))[0])
        ctx.fail(f"{sig}/rows/{'+'.join(mis)}_of_another_cell{shared}",
                 f"{who}: in the flattened batch a row's {', '.join(mis)} belong(s) to a different (agent, env, step) than the row's observation"
                 + (" (advantages and returns sit in the rows of their values)" if "value" in mis and "advantage" not in mis else ""),
                 row=i, observation_cell=cell_json(cells[obs_cell[i]]),
                 log_prob_cell=cell_json(cells[lp_cell[i]]) if lp_cell[i] >= 0 else None,
                 value_cell=cell_json(cells[val_cell[i]]) if val_cell[i] >= 0 else None,
                 n_bad=int(np.any([wrong[k] for k in mis], axis=0).sum()), rows=n,
                 observation_order=[list(map(int, cells[j])) for j in obs_cell[:12]],
                 value_order=[list(map(int, cells[j])) if j >= 0 else None for j in val_cell[:12]], **details)
    # ---- the sampler hands over exactly the selected rows ------------------------------------------------------------
    covered = np.zeros(n, dtype=int)
    for idx, out in block["calls"]:
        covered[idx] += 1
        for name, full, got in zip(("states", "actions", "log_probs", "advantages", "returns", "values"), block["full"], out):
            for (key, f_arr), (_, g_arr) in zip(_leaves(full), _leaves(got)):
                want = f_arr[idx]
                if want.shape != g_arr.shape or not np.array_equal(want, g_arr, equal_nan=True):
                    ctx.fail(f"{sig}/minibatch/sampled_rows_differ_from_batch_rows",
                             f"{who}: the minibatch's {name} are not the selected rows of the flattened {name}",
                             column=name, part=key, idx=idx.tolist(), **details)
    if (covered == 1).all() and sorted(obs_cell.tolist()) == list(range(len(cells))):
        ctx.label("every-cell-applied-exactly-once")
    if (val_cell >= 0).all() and len(set(val_cell.tolist())) == n:
        return {cells[j]: d["adv"][i] for i, j in enumerate(val_cell)}
    return None


# ---------------------------------------------------------------------------------------------------------------
# one rollout through the learner
# ---------------------------------------------------------------------------------------------------------------

def _gae_site(err, L):
    """'file.py:function' when the exception was raised by the learner's own GAE / regrouping / flattening code BEFORE the
    minibatch loop of the policy it was working on (decided from the traceback: the deepest learn / _learn_individual frame
    stands on a line above that function's call of get_experiences_samples), else None"""
    import inspect
    import traceback

    s = site_of(err)
    if s.split(":")[0] not in GAE_FILES:
        return None
    mod_file = os.path.realpath(L.mod.__file__)
    for fr in reversed(traceback.extract_tb(err.__traceback__)):
        if os.path.realpath(fr.filename) != mod_file or fr.name not in ("learn", "_learn_individual"):
            continue
        fn = getattr(type(L.agent), fr.name, None)
        if fn is None:
            return None
        lines, first = inspect.getsourcelines(fn)
        call = [first + i for i, ln in enumerate(lines) if NAME + "(" in ln]
        if not call:  # IPPO.learn itself (regrouping by shared policy): everything in it precedes the minibatches
            return s
        return s if fr.lineno < call[0] else None
    return None


def observe(ctx, L, rd, ro, sig, details, tag):
    """bootstrap + learn + all clauses; returns {cell: advantage} (through the value column) or None"""
    try:
        NV = L.bootstrap(rd.next_state_dict(L) if L.algo == "IPPO" else {None: rd.nxt[0]})
    except Exception as e:  # noqa: BLE001 - the critic on a plain observation batch is C15's subject, a precondition here
        ctx.label(f"setup-failed:bootstrap:{type(e).__name__}")
        return None
    if not np.isfinite(NV).all():
        ctx.label("setup-failed:bootstrap-nonfinite")
        return None
    A_ref, M_ref = rd.reference(NV)
    blocks, err = run_learn(L, rd, ro)
    if err is not None:
        site = _gae_site(err, L)
        if site is not None and len(blocks) < len(L.groups):
            # raised inside the learner's own GAE / regrouping / flattening code before this policy's batch was formed
            g, members = L.groups[len(blocks)]
            cls = "single_step_rollout" if rd.T == 1 else "multi_step_rollout"
            # (one class whatever the exception type: which of IndexError / RuntimeError comes out depends on E and A only)
            ctx.fail(f"{sig}/gae_raises/{cls}@{site}",
                     f"learn() raises {type(err).__name__} while computing / flattening the estimates of a rollout of the domain: {str(err)[:200]}",
                     group=g, exception=type(err).__name__, **details)
        ctx.label(f"learn-raised:{type(err).__name__}@{site_of(err)}")
    advs = {}
    ok = err is None
    for (g, members), block in zip(L.groups, blocks):
        who = f"{L.algo}" + (f" policy '{g}' shared by {len(members)} agent(s)" if L.algo == "IPPO" else "")
        dd = dict(details, group=g, agents_sharing_policy=len(members))
        m = check_block(ctx, L, rd, members, block, A_ref, M_ref, sig, dd, who)
        if m is None:
            ok = False
        else:
            advs.update(m)
    ctx.label(f"{tag}:observed-blocks", len(blocks))
    return advs if ok and len(blocks) == len(L.groups) else None


def label_rollout(ctx, L, rd, ro):
    T, E = rd.T, rd.E
    ctx.label(f"T={T}" if T <= 2 else "T>=3")
    ctx.label(f"E={E}" if E <= 1 else "E>=2")
    for name, v in (("gamma", rd.gamma), ("lam", rd.lam)):
        ctx.label(f"{name}={'0' if v == 0 else '1' if v == 1 else 'interior'}")
    if rd.D[:, 0].any():
        ctx.label("done@step0")
    if T >= 2 and rd.D[:, T - 2].any():
        ctx.label("done@stored_dones[T-1]")
    if rd.D[:, T - 1].any():
        ctx.label("done@next_done")
    if not rd.D.any():
        ctx.label("no-done")
    if any(rd.d0):
        ctx.label("stored-dones[0]=1(carried-over)")
        if any((d >> e) & 1 and not rd.D[k, T - 1, e] for k, d in enumerate(rd.d0) for e in range(E)):
            ctx.label("stored-dones[0]=1&next_done=0")
    if L.algo == "IPPO":
        ctx.label("groups=" + "+".join(str(len(m)) for _, m in L.groups))
    ctx.label(f"rewards={ro.get('rdtype', 'f64')}")
    if ro["batch_size"] >= rd.K * T * E:
        ctx.label("one-minibatch-covers-all")
    nontrivial = T >= 2 and E >= 2 and rd.interior_done() and (L.algo == "PPO" or any(len(m) >= 2 for _, m in L.groups))
    if nontrivial:
        ctx.label("nontrivial-rollout")
    return nontrivial


def run_case(case, ctx):
    algo = case["algo"]
    try:
        L = Learner(case)
    except Exception as e:  # noqa: BLE001 - construction is not what C17 promises
        ctx.label(f"setup-failed:{type(e).__name__}")
        return
    sig = f"C17/{algo}"
    ctx.label(f"algo={algo}")
    ctx.label(f"obs={case['obs']}")
    ctx.label(f"act={case['act']}")
    for j, ro in enumerate(case["rollouts"]):
        rd = Rollout(L, ro)
        details = {"algo": algo, "T": rd.T, "E": rd.E, "gamma": rd.gamma, "lam": rd.lam, "rollout": j,
                   "groups": case.get("groups"), "order": case.get("order"), "dones_bitmasks": ro["dones"]}
        nontrivial = label_rollout(ctx, L, rd, ro)
        ctx.label("rollouts")
        advs = observe(ctx, L, rd, ro, sig, details, "base")
        if nontrivial:
            ctx.nontrivial({"algo": algo, "g": case.get("groups"), "o": case.get("order"), "T": rd.T, "E": rd.E,
                            "d": ro["dones"], "gamma": rd.gamma, "lam": rd.lam})
        # ---- metamorphic: nothing that follows an episode start reaches the estimates before it ----------------------
        if not ro.get("noleak") or not rd.D.any():
            continue
        P, start = rd.perturbed_after_episode_start(L, ro["seed"] + 1)
        advs2 = observe(ctx, L, P, ro, sig, dict(details, run="perturbed after an episode start"), "perturbed")
        if advs is None or advs2 is None:
            ctx.label("noleak-skipped:rows-not-decodable")
            continue
        for k in range(rd.K):
            for e in range(rd.E):
                s = int(start[k, e])
                if s > rd.T:
                    continue
                cls = "final_next_done" if s == rd.T else "interior_done"
                ctx.label(f"noleak-checked:{cls}")
                for t in range(s):
                    a1, a2 = advs.get((k, t, e)), advs2.get((k, t, e))
                    if a1 is None or a2 is None:
                        continue
                    if not (a1 == a2):
                        ctx.fail(f"{sig}/noleak/{cls}",
                                 "rewards / values that follow the start of a new episode changed an advantage of a step before it",
                                 cell=cell_json((k, t, e)), episode_start_step=s, before=float(a1), after=float(a2), **details)
                        break


# ---------------------------------------------------------------------------------------------------------------
# strategies
# ---------------------------------------------------------------------------------------------------------------

COEFS = [0.0, 1.0, 0.5, 0.9, 0.95, 0.99]


def coef():
    return st.one_of(st.sampled_from(COEFS), st.floats(0.0, 1.0, width=32, allow_nan=False))


@st.composite
def rollout_strategy(draw, K, tier):
    T = draw(st.integers(1, 8))
    E = draw(st.integers(1, 4))
    full = (1 << T) - 1
    style = draw(st.sampled_from(["sparse", "sparse", "any", "none"]))
    masks = []
    for _ in range(K):
        row = []
        for _ in range(E):
            if style == "none":
                row.append(0)
            elif style == "any":
                row.append(draw(st.integers(0, full)))
            else:
                row.append(draw(st.integers(0, full)) & draw(st.integers(0, full)))
        masks.append(row)
    n = K * T * E
    d0 = [draw(st.integers(0, (1 << E) - 1)) for _ in range(K)] if draw(st.sampled_from([0, 0, 1])) else []
    return {"T": T, "E": E, "d0": d0, "gamma": draw(coef()), "lam": draw(coef()), "dones": masks,
            "seed": draw(st.integers(0, 99999)), "rdtype": draw(st.sampled_from(["f64", "f64", "f32"])),
            "rscale": draw(st.sampled_from([1.0, 1.0, 0.0, 10.0])), "vscale": draw(st.sampled_from([1.0, 1.0, 4.0])),
            "batch_size": draw(st.sampled_from([2, 3, 4, 8, max(2, n), max(2, n + 3)])),
            "noleak": draw(st.sampled_from([1, 1, 0]))}


def _kinds(tier):
    obs = ["vector", "vector", "vector4", "image", "dict"] if tier == "thorough" else ["vector", "vector", "vector", "vector4", "image", "dict"]
    return obs, ["discrete", "box", "multidiscrete", "box1"]


@st.composite
def ppo_strategy(draw, tier):
    obs, act = _kinds(tier)
    nro = draw(st.integers(3, 6 if tier == "quick" else 10))
    return {"algo": "PPO", "obs": draw(st.sampled_from(obs)), "act": draw(st.sampled_from(act)),
            "wseed": draw(st.integers(0, 9999)), "rollouts": [draw(rollout_strategy(1, tier)) for _ in range(nro)]}


GROUPS = [[1], [2], [3], [2], [3], [2, 1], [1, 2], [2, 2], [3, 2], [1, 1], [2, 3]]


@st.composite
def ippo_strategy(draw, tier):
    obs, act = _kinds(tier)
    groups = draw(st.sampled_from(GROUPS))
    nro = draw(st.integers(3, 6 if tier == "quick" else 10))
    return {"algo": "IPPO", "obs": draw(st.sampled_from(obs)), "act": draw(st.sampled_from(act)), "groups": groups,
            "order": draw(st.sampled_from(["grouped", "interleaved"])), "desc": draw(st.booleans()), "wseed": draw(st.integers(0, 9999)),
            "rollouts": [draw(rollout_strategy(sum(groups), tier)) for _ in range(nro)]}


def _env_seed():
    return int(os.environ.get("VERIF_SEED", "1") or "1")


def _grid_rollouts(K, rng, shapes):
    """corner rollouts: every (T, E) of ``shapes`` with the end points of gamma / lambda and dones on the first step,
    the last stored step and the final next_done"""
    out = []
    coefs = [(0.9, 0.8), (1.0, 1.0), (0.0, 0.5), (0.5, 0.0), (1.0, 0.0), (0.99, 0.95)]
    for j, (T, E) in enumerate(shapes):
        g, lam = coefs[j % len(coefs)]
        full = (1 << T) - 1
        masks = []
        for k in range(K):
            row = []
            for e in range(E):
                pick = (j + k + e) % 5
                m = [1, 1 << (T - 1), (1 << max(T - 2, 0)), 0, int(rng.integers(0, full + 1)) & int(rng.integers(0, full + 1))][pick]
                row.append(m & full)
            masks.append(row)
        out.append({"T": T, "E": E, "gamma": g, "lam": lam, "dones": masks, "seed": int(rng.integers(0, 99999)),
                    "rdtype": "f64" if j % 3 else "f32", "rscale": 1.0, "vscale": 1.0,
                    "batch_size": [2, 3, K * T * E + 1][j % 3] if K * T * E > 1 else 2, "noleak": 1})
    return out


SHAPES = [(1, 1), (1, 3), (2, 1), (2, 2), (3, 2), (4, 3), (8, 4), (5, 2)]


def _grid(tier, algo):
    """one single-rollout case per (learner configuration, corner shape), smallest rollouts first - the first grid case that
    shows a defect is then already close to minimal (enumerated cases are not shrunk)"""
    if algo == "PPO":
        learners = [{"algo": "PPO", "obs": o, "act": a} for o, a in
                    zip(["vector", "image", "dict", "vector4"], ["discrete", "box", "multidiscrete", "box1"])]
    else:
        learners = [{"algo": "IPPO", "obs": o, "act": a, "groups": g, "order": "interleaved" if i % 2 else "grouped"}
                    for i, (o, a, g) in enumerate(zip(["vector", "vector4", "vector", "dict", "image", "vector"],
                                                      ["discrete", "box", "multidiscrete", "box1", "box", "discrete"],
                                                      [[1], [2], [3], [2, 1], [1, 3], [2, 2]]))]
    cases = []
    for i, ln in enumerate(learners):
        rng = np.random.default_rng([_env_seed(), 17, i])
        K = sum(ln.get("groups", [1]))
        wseed = int(rng.integers(0, 9999))
        for ro in _grid_rollouts(K, rng, SHAPES):
            cases.append(dict(ln, wseed=wseed, rollouts=[ro]))
    cases.sort(key=lambda c: (c["rollouts"][0]["T"] * c["rollouts"][0]["E"] * sum(c.get("groups", [1])), c["rollouts"][0]["T"]))
    return cases


def ppo_grid(tier):
    return _grid(tier, "PPO")


def ippo_grid(tier):
    return _grid(tier, "IPPO")


PROPERTY = Property(
    id="C17",
    level="exploration",
    rule=("a case = one learner (PPO, or IPPO with one or two shared policies of 1-3 agents each, agent ids grouped or interleaved; "
          "vector / image / dict observations; Discrete / MultiDiscrete / Box actions) and 3-6 (thorough 3-10) drawn rollouts run "
          "through its real learn(): length T 1-8, E 1-4 vectorised envs, per (agent, env) a drawn bit mask of the done flags "
          "produced by steps 0..T-1 (stored one step late as the training loops do; the last one is next_done), gamma and lambda "
          "from {0, 1, 0.5, 0.9, 0.95, 0.99} or any float in [0, 1], reward scale 0/1/10 and dtype, value scale, batch_size 2..N+3; "
          "every cell tagged in observation, Box action, log-prob and value; most rollouts are run a second time with everything "
          "after one episode start per sequence replaced (no-leak). A small grid adds the corner shapes (T=1, E=1, dones on the "
          "first / last stored step / next_done, gamma, lambda in {0, 1}). A ROLLOUT is non-trivial when T >= 2, E >= 2, it has "
          ">= 1 interior done and (IPPO) a policy shared by >= 2 agents; distinct by (algo, groups, order, T, E, masks, gamma, lambda); "
          "ctx.nontrivial is called per rollout. LOOP obligations: the real train_on_policy (PPO; single env or 1-3 vectorised "
          "envs) / train_multi_agent_on_policy (IPPO; 1-3 agents x 1-3 envs) run 1-4 rollouts of 1-8 steps on a scripted env "
          "whose per-(agent, env) episode ends cycle through a drawn list over {none, terminated, truncated, both}; every rollout "
          "handed to learn() is compared cell by cell with the env's own log; non-trivial = at least one episode end inside the "
          "recorded rollouts, distinct by (algo, envs, agents, script, learn_step, evo_steps, max_steps)"),
    obligations=[
        Obligation("ppo_gae_rows", run_case, strategy=ppo_strategy, enumerate=ppo_grid,
                   examples={"quick": 32, "thorough": 250}, shards={"quick": 5, "thorough": 16},
                   shrink_budget={"quick": 25, "thorough": 300}),
        Obligation("ippo_gae_rows", run_case, strategy=ippo_strategy, enumerate=ippo_grid,
                   examples={"quick": 32, "thorough": 250}, shards={"quick": 5, "thorough": 16},
                   shrink_budget={"quick": 25, "thorough": 300}),
        Obligation("ppo_loop_records", c17_loops.run_loop, strategy=c17_loops.ppo_loop_strategy,
                   examples={"quick": 40, "thorough": 400}, shards={"quick": 3, "thorough": 16},
                   shrink_budget={"quick": 40, "thorough": 300}),
        Obligation("ippo_loop_records", c17_loops.run_loop, strategy=c17_loops.ippo_loop_strategy,
                   examples={"quick": 30, "thorough": 300}, shards={"quick": 3, "thorough": 16},
                   shrink_budget={"quick": 40, "thorough": 300}),
    ],
    assumptions=[
        "stored dones[t] is the done flag produced by step t-1 (dones[0] = 0 as the loops store it; one third of the rollouts draw it, as a caller carrying the flag over would: d_0 is not in the recursion and must change nothing), next_done the one produced by the last step - as "
        "train_on_policy / train_multi_agent_on_policy store them; so d_{t+1} of the statement is dones[t+1] resp. next_done",
        "loop obligations: the environment is duck-typed (num_envs + the gymnasium / PettingZoo-parallel call signatures the loops "
        "use), tournament=None, mutation=None; dones[0] of a rollout is not examined (no estimate reads it); an exception out of "
        "the loop is labelled and left to C20, rollouts recorded before it are still compared",
        "rollouts are shaped as the vectorised branches of the loops produce them (E >= 1 envs; IPPO per-agent log-probs / values "
        "of shape (E, 1), Discrete actions (E, 1)); the non-vectorised branches belong to C20",
        "gamma, gae_lambda and batch_size are set as attributes on the built learner before each rollout (as hyper-parameter "
        "mutation does); update_epochs = 1, lr = 1e-4",
        "the computation is observed through the module-level name get_experiences_samples of agilerl.algorithms.ppo / .ippo "
        "(harness-side pass-through for the duration of learn); its disappearance is a harness error",
        "tolerance on advantages: 1e-5 * max(1, sum of the absolute terms of the recursion for that cell); the no-leak clause "
        "compares with == (same process, one thread, element-wise arithmetic)",
        "an exception out of learn() is a C17 violation only when it is raised by the GAE / regrouping / flattening code itself "
        "(innermost agilerl frame in ppo.py, ippo.py or algo_utils.py) before the policy's flattened batch exists; exceptions "
        "from networks / optimisers are labelled and left to C15 / C20",
    ],
    wanted_labels=["algo=PPO", "algo=IPPO", "stored-dones[0]=1&next_done=0", "T=1", "T=2", "T>=3", "E=1", "E>=2", "gamma=0", "gamma=1", "gamma=interior", "lam=0",
                   "lam=1", "lam=interior", "done@step0", "done@stored_dones[T-1]", "done@next_done", "no-done", "groups=1", "groups=2",
                   "groups=3", "groups=2+1", "groups=2+2", "nontrivial-rollout", "noleak-checked:interior_done",
                   "noleak-checked:final_next_done", "every-cell-applied-exactly-once", "obs=vector", "obs=image", "obs=dict",
                   "act=discrete", "act=box", "act=multidiscrete", "end-kind=truncation", "end-kind=termination",
                   "end-kind=termination+truncation", "end@last-step-of-rollout", "end@first-step-of-rollout", "E=single"],
)
