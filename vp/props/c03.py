"""C03 - architecture mutations keep every network valid, bounded and rebuildable."""
from __future__ import annotations

from vp.core.engine import Property
from vp.gen import archwalk as W


def run_walk(case, ctx):
    W.run_chain(case, ctx, "C03")


PROPERTY = Property(
    id="C03",
    level="exploration",
    rule=("clone-and-mutate chains (m = m.clone(); method drawn from THAT clone's mutation_methods; arguments drawn from the method's "
          "signature: explicit hidden_layer / numb_new_nodes / numb_new_channels / kernel_size from small sets, or None => the library's "
          "internal draw under a drawn numpy seed) over EvolvableMLP, CNN 2d, CNN 3d, LSTM, SimBa, ResNet, MultiInput (dict/tuple, "
          "+-vector_space_mlp, +-recurrent) and QNetwork, RainbowQNetwork, ContinuousQNetwork, ValueNetwork, DeterministicActor, "
          "StochasticActor over vector/image/sequence/dict/tuple observation spaces (also SimBa / LSTM / ResNet / Conv3d encoders); start "
          "architectures inside drawn tight bounds (3 in 4) or the library defaults (1 in 4). After EVERY step: (1) forward on batches of "
          "1, 2, n rows (eval mode; train mode for >= 2 rows) is finite and has the declared shape, (2) every declared size stays in "
          "[min,max] (a size that starts outside may only stay or move toward the range), kernels fit their feature map, (3) "
          "type(m)(**deepcopy(m.init_dict)) has the same descriptor, accepts m.state_dict() strictly and computes bit-equal outputs, "
          "and so does m.clone(), (4) the descriptor after the call is one the per-method reference model allows (direct effect, "
          "documented fall-back, unchanged only when a declared bound blocks). non-trivial = the chain hit >= 1 bound or fall-back, or "
          "used >= 3 distinct methods; distinct by (class/space label, bounds regime, sequence of (method, effect tag)). Obligation "
          "enumerated_walks enumerates ALL sequences of (method, explicit arguments) to a fixed depth under tight bounds."),
    obligations=W.make_obligations(run_walk),
    assumptions=[
        "only freshly cloned networks are mutated, once each (what Mutations.architecture_mutate does); repeated mutation of one object is outside the domain",
        "observation batches are already preprocessed float tensors (images in [0,1], Discrete members one-hot), as the algorithms pass them",
        "a change that would land exactly on a bound may be applied or refused (the library mixes < and <=); internal random choices range over every documented value",
        "explicit kernel_size arguments are taken from 1..calc_max_kernel_sizes of the addressed layer and always come with the hidden_layer they were computed for",
        "noisy layers are compared after reset_noise() under the same torch seed; BatchNorm statistics touched by the check's own train-mode forwards are restored",
        "'the clone advertises fewer methods than the mutated original' is recorded as a label only",
    ],
    wanted_labels=["class=EvolvableMLP", "class=EvolvableCNN/Conv2d", "class=EvolvableCNN/Conv3d", "class=EvolvableLSTM", "class=EvolvableSimBa",
                   "class=EvolvableResNet", "chain-hit-a-bound", "chain-used-a-fall-back", "effect=direct", "effect=blocked",
                   "effect=fallback:direct", "args=explicit", "args=internal-draw", "bounds=tight", "bounds=default",
                   "starts-outside-declared-range"],
)
