"""C11 - prioritised replay: sampled indices, priorities, weights and tree invariants."""
from __future__ import annotations

import math

import numpy as np
import torch
from hypothesis import strategies as st

from vp.core.engine import HarnessError, Obligation, Property

ALPHAS = [0.0, 0.3, 0.6, 1.0]
BETAS = [0.0, 0.4, 0.7, 1.0]


class _TorchProxy:
    """Stands in for the name `torch` inside agilerl.components.replay_buffer while a
    sample() call runs: everything is forwarded except rand(), which hands out drawn variates."""

    def __init__(self, real, variates):
        self._real = real
        self._variates = list(variates)
        self.used = 0

    def __getattr__(self, name):
        return getattr(self._real, name)

    def rand(self, *size, **kw):
        u = self._variates[self.used % len(self._variates)]
        self.used += 1
        return self._real.full(size if size else (1,), u, dtype=self._real.float64)


def _variate(code, frac):
    """code selects a boundary class, frac in [0,1)"""
    if code == 0:
        return 0.0
    if code == 1:
        return 1.0 - 2.0 ** -24  # largest float32 below 1 (what torch.rand can return)
    if code == 2:
        return 0.5
    return frac


def _tiny_td(ids):
    from tensordict import TensorDict

    return TensorDict({"obs": torch.tensor([[float(i)] for i in ids]),
                       "reward": torch.tensor([[float(i)] for i in ids])}, batch_size=[len(ids)])


def _check_trees(ctx, buf, leaves, size, op):
    """leaves: model dict slot -> priority**alpha for slots that were ever written since clear"""
    st_, mt = buf.sum_tree, buf.min_tree
    cap = st_.capacity
    for tree, ident, f, name in ((st_, 0.0, lambda a, b: a + b, "sum"), (mt, float("inf"), min, "min")):
        t = tree.tree
        for node in range(1, cap):
            want = f(t[2 * node], t[2 * node + 1])
            if t[node] != want:
                ctx.fail(f"C11/tree/{name}_internal_node", "internal node differs from op(left, right)",
                         node=node, got=t[node], want=want, op=op)
                break
        for i in range(cap):
            want = leaves.get(i, ident)
            if t[cap + i] != want and not (abs(t[cap + i] - want) <= 1e-12 * abs(want)):
                ctx.fail(f"C11/tree/{name}_leaf", "leaf differs from the priority**alpha the model holds "
                         "(or an unstored leaf does not hold the identity)", leaf=i, got=t[cap + i], want=want, op=op)
                break
    if leaves:
        direct = math.fsum(leaves.values())
        ctx.check(abs(st_.sum() - direct) <= 1e-9 * max(direct, 1e-300), "C11/tree/total",
                  "running total differs from the direct sum of stored priorities", got=st_.sum(), want=direct, op=op)
        ctx.check(mt.min() == min(leaves.values()), "C11/tree/minimum",
                  "running minimum differs from the direct minimum", got=mt.min(), want=min(leaves.values()), op=op)


def run_per(case, ctx):
    import agilerl.components.replay_buffer as rb

    cap, alpha = case["cap"], ALPHAS[case["alpha"]]
    buf = rb.PrioritizedReplayBuffer(cap, alpha=alpha)
    from agilerl.components.sampler import Sampler

    sampler = Sampler(memory=buf)
    leaves = {}  # slot -> p**alpha
    count = 0  # rows added since clear
    maxp = 1.0
    next_id = 1
    did_update = did_wrap = sampled_after = False
    labels = set()
    if cap & (cap - 1):
        labels.add("non-pow2-capacity")

    for op in case["ops"]:
        kind = op[0]
        if kind == "add":
            w = 1 + op[1] % cap
            ids = list(range(next_id, next_id + w))
            next_id += w
            with ctx.promised("C11/add"):
                buf.add(_tiny_td(ids))
            for j in range(w):
                slot = (count + j) % cap
                leaves[slot] = maxp ** alpha
            count += w
            did_wrap |= count > cap
        elif kind == "update":
            size = min(cap, count)
            if size == 0:
                continue
            idx = [i % size for i in op[1]]
            pri = [float(np.float32(10.0 ** e)) for e in op[2]][: len(idx)]
            idx = idx[: len(pri)]
            if not idx:
                continue
            if len(set(idx)) < len(idx):
                labels.add("repeated-index")
            if min(pri) < 1e-5:
                labels.add("tiny-priority")
            if max(pri) > 1e6:
                labels.add("huge-priority")
            with ctx.promised("C11/update_priorities"):
                buf.update_priorities(torch.tensor(idx, dtype=torch.int64).unsqueeze(1),
                                      np.asarray(pri, dtype=np.float32))
            for i, p in zip(idx, pri):
                p = max(p, 1e-5)
                leaves[i] = p ** alpha
                maxp = max(maxp, p)
            did_update = True
        elif kind == "clear":
            with ctx.promised("C11/clear"):
                buf.clear()
            leaves, count, maxp = {}, 0, 1.0
            labels.add("cleared")
        elif kind == "sample":
            size = min(cap, count)
            if size == 0:
                continue
            k = 1 + op[1] % size
            beta = BETAS[op[2]]
            us = [_variate(c, f) for c, f in op[3]] or [0.5]
            if any(c in (0, 1) for c, _ in op[3][:k]):
                labels.add("variate-at-stratum-end")
            proxy = _TorchProxy(torch, us)
            rb.torch = proxy
            try:
                with ctx.promised("C11/sample"):
                    if case.get("via_sampler"):
                        # the path train_off_policy uses: Sampler(memory=per_buffer).sample(batch_size, beta)
                        batch = sampler.sample(k, beta)
                        labels.add("sampled-through-Sampler")
                    else:
                        batch = buf.sample(k, beta)
            finally:
                rb.torch = torch
            idxs = batch["idxs"].reshape(-1).tolist()
            weights = batch["weights"].reshape(-1).double().tolist()
            ctx.check(len(idxs) == k, "C11/sample/wrong_batch_size", "", got=len(idxs), k=k)
            pri = [leaves.get(i, 0.0) for i in range(cap)]
            total = math.fsum(pri)
            prefix = np.cumsum(pri)
            for j, i in enumerate(idxs):
                if not (0 <= i < size) or pri[i] <= 0.0:
                    ctx.fail("C11/sample/index_not_stored", "sampled an index that holds no stored transition",
                             index=i, size=size, op=op)
                    continue
                if proxy.used == k:  # variates were consumed one per stratum: check inverse CDF
                    u = us[j % len(us)]
                    seg = total / k
                    ub = u * seg + seg * j
                    lo = prefix[i - 1] if i > 0 else 0.0
                    hi = prefix[i]
                    tol = 1e-9 * total
                    ctx.check(lo - tol <= ub <= hi + tol, "C11/sample/not_inverse_cdf",
                              "index is not the one whose cumulative-priority interval contains the drawn mass",
                              index=i, mass=ub, interval=[lo, hi], stratum=j, k=k)
                    ctx.label("inverse-cdf-checked")
                # stored row belongs to the index
                want_row = float(buf.storage["obs"][i].reshape(-1)[0])
                ctx.check(float(batch["obs"][j].reshape(-1)[0]) == want_row, "C11/sample/row_index_mismatch",
                          "returned transition is not the one stored at the returned index", index=i)
            # weights
            stored = [pri[i] for i in range(size)]
            wmax = max((size * p / total) ** (-beta) for p in stored)
            for j, i in enumerate(idxs):
                if not (0 <= i < size) or pri[i] <= 0:
                    continue
                want = (size * pri[i] / total) ** (-beta) / wmax
                got = weights[j]
                ctx.check(abs(got - want) <= 1e-5 * max(want, 1e-30) + 1e-12 and (0.0 < got <= 1.0 + 1e-6 or want < 1e-38),
                          "C11/sample/weight", "importance weight differs from (N P(i))^-beta / max_j (N P(j))^-beta or is outside (0,1]",
                          index=i, got=got, want=want, beta=beta, size=size)
            if did_update or did_wrap:
                sampled_after = True
        else:
            raise HarnessError(f"unknown op {op}")

        size = min(cap, count)
        ctx.check(len(buf) == size, "C11/len", "", got=len(buf), want=size, op=op)
        _check_trees(ctx, buf, leaves, size, op)
        ctx.check(buf.max_priority == maxp, "C11/max_priority",
                  "max priority is not max(1, every priority written)", got=buf.max_priority, want=maxp, op=op)

    for l in labels:
        ctx.label(l)
    if did_wrap:
        ctx.label("wrapped")
    if did_update:
        ctx.label("updated")
    if sampled_after:
        ctx.nontrivial({"cap": cap, "a": case["alpha"], "ops": case["ops"]})


def run_tree(case, ctx):
    """Direct differential test of the two segment trees against a plain list."""
    from agilerl.components.segment_tree import MinSegmentTree, SumSegmentTree

    cap = 2 ** case["log2cap"]
    s, m = SumSegmentTree(cap), MinSegmentTree(cap)
    arr_s = [0.0] * cap
    arr_m = [float("inf")] * cap
    nontriv = False
    for op in case["ops"]:
        if op[0] == "set":
            i = op[1] % cap
            v = 10.0 ** op[2]
            s[i] = v
            m[i] = v
            arr_s[i] = v
            arr_m[i] = v
        elif op[0] == "range":
            a = op[1] % cap
            b = a + 1 + op[2] % (cap - a)  # a < b <= cap
            end = b if b < cap else (b if op[3] else 0)  # end=0 means 'to the end'
            with ctx.promised("C11/segment_tree/range_query"):
                gs = s.sum(a, end)
                gm = m.min(a, end)
            ws = math.fsum(arr_s[a:b])
            ctx.check(abs(gs - ws) <= 1e-9 * max(ws, 1e-300), "C11/segment_tree/sum_range", "", a=a, b=b, got=gs, want=ws)
            ctx.check(gm == min(arr_m[a:b]), "C11/segment_tree/min_range", "", a=a, b=b, got=gm, want=min(arr_m[a:b]))
            nontriv = True
        elif op[0] == "retrieve":
            total = math.fsum(arr_s)
            if total <= 0:
                continue
            ub = op[1] * total
            if op[2] is not None:  # aim at a prefix boundary
                pre = np.cumsum(arr_s)
                ub = float(pre[op[2] % cap]) * (1 - 1e-12 if op[3] else 1.0)
                ub = min(ub, total * (1 - 2 ** -24))
            with ctx.promised("C11/segment_tree/retrieve"):
                i = s.retrieve(ub)
            pre = np.cumsum(arr_s)
            lo = pre[i - 1] if i > 0 else 0.0
            tol = 1e-9 * total
            ctx.check(0 <= i < cap and arr_s[i] > 0 and lo - tol <= ub <= pre[i] + tol,
                      "C11/segment_tree/retrieve_wrong_leaf", "retrieve(mass) is not the leaf whose interval contains mass",
                      leaf=i, mass=ub, interval=[lo, float(pre[i])], value=arr_s[i] if 0 <= i < cap else None)
            nontriv = True
        for node in range(1, cap):
            if s.tree[node] != s.tree[2 * node] + s.tree[2 * node + 1] or m.tree[node] != min(m.tree[2 * node], m.tree[2 * node + 1]):
                ctx.fail("C11/segment_tree/internal_node", "internal node differs from op(children)", node=node)
                break
        ctx.check([s[i] for i in range(cap)] == arr_s and [m[i] for i in range(cap)] == arr_m,
                  "C11/segment_tree/leaves", "leaf values differ from what was written")
    ctx.label(f"treecap={cap}")
    if nontriv:
        ctx.nontrivial({"c": cap, "ops": case["ops"]})


# ----------------------------------------------------------------------------

@st.composite
def per_strategy(draw, tier):
    big = tier == "thorough"
    cap = draw(st.integers(1, 33 if big else 17))
    add = st.tuples(st.just("add"), st.integers(0, 40))
    upd = st.tuples(st.just("update"), st.lists(st.integers(0, 40), min_size=1, max_size=6),
                    st.lists(st.sampled_from([-12.0, -6.0, -5.0, -3.0, -1.0, 0.0, 0.5, 1.0, 3.0, 6.0, 12.0]) | st.floats(-12, 12),
                             min_size=6, max_size=6))
    smp = st.tuples(st.just("sample"), st.integers(0, 40), st.integers(0, 3),
                    st.lists(st.tuples(st.integers(0, 5), st.floats(0, 0.999999)), min_size=1, max_size=8))
    clr = st.tuples(st.just("clear"))
    ops = draw(st.lists(st.one_of(add, add, upd, upd, smp, smp, smp, clr) if draw(st.integers(0, 3)) == 0
                        else st.one_of(add, add, upd, upd, smp, smp, smp), min_size=1, max_size=100 if big else 30))
    return {"cap": cap, "alpha": draw(st.integers(0, 3)), "ops": _listify(ops), "via_sampler": draw(st.booleans())}


def _listify(x):
    if isinstance(x, (tuple, list)):
        return [_listify(y) for y in x]
    return x


@st.composite
def tree_strategy(draw, tier):
    setop = st.tuples(st.just("set"), st.integers(0, 63), st.sampled_from([-12.0, -5.0, -1.0, 0.0, 1.0, 6.0, 12.0]) | st.floats(-12, 12))
    rng = st.tuples(st.just("range"), st.integers(0, 63), st.integers(0, 63), st.booleans())
    ret = st.tuples(st.just("retrieve"), st.floats(0, 0.9999999), st.none() | st.integers(0, 63), st.booleans())
    return {"log2cap": draw(st.integers(0, 5)),
            "ops": _listify(draw(st.lists(st.one_of(setop, setop, rng, ret, ret), min_size=1, max_size=60 if tier == "thorough" else 25)))}


PROPERTY = Property(
    id="C11",
    level="exploration",
    rule=("op lists over PrioritizedReplayBuffer (add with wrap-around, update_priorities with repeated/tiny/huge values, clear, sample with "
          "the stratified uniform variates DRAWN by the generator incl. 0, 1-2^-24 and mid-stratum) checked after every op against a float "
          "array of priority**alpha (tree nodes, total, minimum, max priority, inverse-CDF index, weight formula); plus a direct differential "
          "of the segment trees (set / range query / retrieve at prefix boundaries). non-trivial = the program wrapped or updated priorities and "
          "sampled afterwards (buffer) or issued a query (tree); distinct by (capacity, alpha, op list)"),
    obligations=[
        Obligation("per_buffer_model", run_per, strategy=per_strategy,
                   examples={"quick": 600, "thorough": 8000}, shards={"quick": 10, "thorough": 16}),
        Obligation("segment_tree_differential", run_tree, strategy=tree_strategy,
                   examples={"quick": 1500, "thorough": 20000}, shards={"quick": 6, "thorough": 16}),
    ],
    assumptions=["the stratified sampler draws through the name `torch.rand` of agilerl.components.replay_buffer; if it stops doing so the "
                 "inverse-CDF clause is skipped (label inverse-cdf-checked goes to zero) and the other clauses still decide",
                 "update_priorities receives indices of shape (B,1) and float32 numpy priorities, as RainbowDQN.learn returns them"],
    wanted_labels=["sampled-through-Sampler", "inverse-cdf-checked", "non-pow2-capacity", "repeated-index", "tiny-priority", "huge-priority",
                   "variate-at-stratum-end", "wrapped", "updated", "cleared"],
    fuzz=['per_buffer_model', 'segment_tree_differential'],
)
