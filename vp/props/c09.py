"""C09 - replay buffers hold exactly the most recent transitions, each one intact."""
from __future__ import annotations

import random as pyrandom

import numpy as np
import torch
from hypothesis import strategies as st

from vp.core.engine import Obligation, Property

OBS_KINDS = ["scalar", "vector", "image", "dict", "tuple"]


# ----------------------------------------------------------------------------
# tagged data: every number stored for transition `i` encodes i (and which field / member / agent it is)
# ----------------------------------------------------------------------------

def _members(kind):
    if kind == "scalar":
        return [()]
    if kind == "vector":
        return [(3,)]
    if kind == "image":
        return [(2, 3, 3)]
    return [(2,), (1, 2, 2)]  # dict / tuple: two members


def _pack(kind, arrs):
    if kind == "dict":
        return {"m0": arrs[0], "m1": arrs[1]}
    if kind == "tuple":
        return tuple(arrs)
    return arrs[0]


def _unpack(kind, obj):
    """TensorDict/tensor (as stored) -> list of member tensors"""
    if kind == "dict":
        return [obj["m0"], obj["m1"]]
    if kind == "tuple":
        return [obj["tuple_obs_0"], obj["tuple_obs_1"]]
    return [obj]


def sa_obs(kind, ids, base, batched):
    """ids: list of transition ids; base: 1 for obs, 4 for next_obs."""
    arrs = []
    for j, shp in enumerate(_members(kind)):
        rows = [np.full(shp, i * 8 + base + j, dtype=np.float32) for i in ids]
        arrs.append(np.stack(rows) if batched else rows[0])
    return _pack(kind, arrs)


def sa_transition(kind, ids, vectorised):
    from agilerl.components.data import Transition

    if vectorised:
        tr = Transition(
            obs=sa_obs(kind, ids, 1, True),
            action=np.array([i * 8 + 7 for i in ids], dtype=np.float32),
            reward=np.array([float(i) for i in ids], dtype=np.float32),
            next_obs=sa_obs(kind, ids, 4, True),
            done=np.array([bool(i % 2) for i in ids]),
        )
    else:
        i = ids[0]
        tr = Transition(
            obs=sa_obs(kind, ids, 1, False),
            action=np.float32(i * 8 + 7),
            reward=float(i),
            next_obs=sa_obs(kind, ids, 4, False),
            done=bool(i % 2),
        ).unsqueeze(0)
    td = tr.to_tensordict()
    td.batch_size = [len(ids)]
    return td


def sa_decode_rows(kind, td, nrows):
    """-> list of (id or None, problem or None) per row of a stored/sampled TensorDict"""
    out = []
    obs_m = _unpack(kind, td["obs"])
    nobs_m = _unpack(kind, td["next_obs"])
    for r in range(nrows):
        ids = set()
        bad = None
        for base, members in ((1, obs_m), (4, nobs_m)):
            for j, t in enumerate(members):
                v = t[r].reshape(-1)
                if v.numel() == 0 or not bool((v == v[0]).all()):
                    bad = f"member {base + j} not constant"
                    continue
                x = float(v[0])
                if int(x) % 8 != base + j:
                    bad = f"member {base + j} holds code {int(x) % 8}"
                ids.add(int(x) // 8)
        a = float(td["action"][r].reshape(-1)[0])
        if int(a) % 8 != 7:
            bad = "action field holds foreign code"
        ids.add(int(a) // 8)
        rew = float(td["reward"][r].reshape(-1)[0])
        ids.add(int(rew))
        d = float(td["done"][r].reshape(-1)[0])
        if len(ids) == 1 and d != float(next(iter(ids)) % 2):
            bad = "done flag belongs to another transition"
        if len(ids) != 1:
            bad = f"fields of one row come from transitions {sorted(ids)}"
        out.append((next(iter(ids)) if len(ids) == 1 else None, bad))
    return out


def _snapshot(td):
    return td.clone()


def _same_td(a, b):
    if set(a.keys(True, True)) != set(b.keys(True, True)):
        return False
    return all(torch.equal(a[k], b[k]) for k in a.keys(True, True))


def run_single(case, ctx):
    from agilerl.components.replay_buffer import PrioritizedReplayBuffer, ReplayBuffer
    from agilerl.components.sampler import Sampler

    kind, cap, per = case["obs"], case["cap"], case["per"]
    torch.manual_seed(case["seed"])
    buf = PrioritizedReplayBuffer(cap, alpha=0.6) if per else ReplayBuffer(cap)
    sampler = Sampler(memory=buf)
    tag = "per" if per else "uniform"
    model = []  # ids since last clear, oldest first
    next_id = 1
    handed = []  # (live object, snapshot)
    cleared = False
    wrapped = sampled_after_wrap = False
    cleared_then_sampled = False

    for op in case["ops"]:
        if op[0] == "add":
            w = 1 + op[1] % cap
            vect = bool(op[2]) or w > 1
            ids = list(range(next_id, next_id + w))
            next_id += w
            td = sa_transition(kind, ids, vect)
            with ctx.promised(f"C09/{tag}/add", obs=kind):
                buf.add(td)
            model.extend(ids)
            if len(model) > cap:
                wrapped = True
        elif op[0] == "sample":
            if not model:
                continue
            n = min(cap, len(model))
            k = 1 + op[1] % n
            with ctx.promised(f"C09/{tag}/sample", obs=kind, after_clear=cleared):
                if per:
                    b = sampler.sample(k, 0.4)
                else:
                    b = sampler.sample(k, bool(op[1] % 2))
            rows = sa_decode_rows(kind, b, k)
            live = set(model[-cap:])
            got = []
            suffix = "_after_clear" if cleared else ""
            for r, (i, bad) in enumerate(rows):
                if bad is not None or i not in live:
                    ctx.fail(f"C09/{tag}/sample_not_a_stored_transition{suffix}",
                             "sample() returned a row that is not one of the stored transitions",
                             row=r, decoded=i, problem=bad, stored=sorted(live), k=k)
                got.append(i)
            if not per:
                ctx.check(len(set(got)) == len(got), "C09/uniform/sample_duplicates",
                          "uniform sample contains the same transition twice", got=got)
            ctx.check(b.batch_size[0] == k if hasattr(b, "batch_size") else True,
                      f"C09/{tag}/sample_wrong_size", "batch has the wrong number of rows", k=k)
            handed.append((b, _snapshot(b)))
            if wrapped:
                sampled_after_wrap = True
            if cleared:
                cleared_then_sampled = True
        elif op[0] == "clear":
            with ctx.promised(f"C09/{tag}/clear"):
                buf.clear()
            model = []
            cleared = True
            wrapped = False

        # ---- invariants after every op ----------------------------------
        n = min(cap, len(model))
        ctx.check(len(buf) == n, f"C09/{tag}/len", "len(buffer) != min(capacity, added since clear)",
                  got=len(buf), want=n, op=op)
        if n > 0:
            rows = sa_decode_rows(kind, buf.storage[:n], n)
            ids = [i for i, _ in rows]
            bad = [(r, b) for r, (_, b) in enumerate(rows) if b]
            ctx.check(not bad, f"C09/{tag}/stored_row_mixed", "a stored row mixes fields of different transitions",
                      problems=bad[:3], op=op)
            ctx.check(sorted(x for x in ids if x is not None) == sorted(model[-cap:]) or bool(bad),
                      f"C09/{tag}/contents", "buffer does not hold exactly the most recent transitions",
                      got=sorted(x for x in ids if x is not None), want=sorted(model[-cap:]), op=op)
        for live, snap in handed:
            ctx.check(_same_td(live, snap), f"C09/{tag}/handed_out_batch_changed",
                      "a batch handed out earlier was altered by a later operation", op=op)

    ctx.label(f"buffer={tag}")
    ctx.label(f"obs={kind}")
    if wrapped or sampled_after_wrap:
        ctx.label("wrapped")
    if cleared:
        ctx.label("cleared")
    if cleared_then_sampled:
        ctx.label("sample-after-clear")
    if sampled_after_wrap:
        ctx.nontrivial({"b": tag, "o": kind, "cap": cap, "ops": [o[0] for o in case["ops"]]})


# ----------------------------------------------------------------------------
# multi-agent buffer
# ----------------------------------------------------------------------------
FIELDS = ["state", "action", "reward", "next_state", "done"]


def ma_value(i, agent, code):
    return float(i * 64 + agent * 8 + code)


def ma_obs(kind, i, agent, base):
    arrs = [np.full(shp, ma_value(i, agent, base + j), dtype=np.float32) for j, shp in enumerate(_members(kind))]
    if kind == "scalar":
        return np.float32(arrs[0])
    return _pack(kind, arrs)


def _stack_obs(kind, lst):
    if kind == "dict":
        return {k: np.stack([o[k] for o in lst]) for k in lst[0]}
    if kind == "tuple":
        return tuple(np.stack([o[j] for o in lst]) for j in range(len(lst[0])))
    return np.stack(lst)


def ma_args(kind, ids, agents, vectorised, korder=0):
    """korder: the field dicts are keyed by agent id; their key (insertion) ORDER is free - 0: every field in the declared
    order, 1: every field reversed, 2: each field rotated by its own offset (fields disagree with each other)"""
    out = []
    for f_idx, (field, base) in enumerate((("state", 1), ("action", 7), ("reward", None), ("next_state", 4), ("done", None))):
        d = {}
        order = list(enumerate(agents))
        if korder == 1:
            order = order[::-1]
        elif korder == 2:
            r = (f_idx + ids[0]) % len(order)
            order = order[r:] + order[:r]
        for a_idx, a in order:
            vals = []
            for i in ids:
                if field in ("state", "next_state"):
                    vals.append(ma_obs(kind, i, a_idx, base))
                elif field == "action":
                    vals.append(np.full((2,), ma_value(i, a_idx, 7), dtype=np.float32))
                elif field == "reward":
                    vals.append(np.float32(i * 4 + a_idx))
                else:
                    vals.append(bool((i + a_idx) % 2))
            if vectorised:
                d[a] = _stack_obs(kind, vals) if field in ("state", "next_state") else np.array(vals)
            else:
                d[a] = vals[0]
        out.append(d)
    return out


def ma_decode(kind, batch, agents, k):
    """batch: tuple of dict field -> agent -> tensor (k, ...). -> list of (id|None, problem)"""
    state, action, reward, next_state, done = batch
    rows = []
    for r in range(k):
        ids = set()
        bad = None
        for a_idx, a in enumerate(agents):
            for base, f in ((1, state), (4, next_state)):
                members = f[a]
                if kind == "dict":
                    members = [members["m0"], members["m1"]]
                elif kind == "tuple":
                    members = list(members)
                else:
                    members = [members]
                for j, t in enumerate(members):
                    v = torch.as_tensor(t)[r].reshape(-1).double()
                    if not bool((v == v[0]).all()):
                        bad = "observation member not constant"
                    x = int(v[0])
                    if x % 8 != base + j or (x // 8) % 8 != a_idx:
                        bad = f"agent {a} field code {base + j} holds value of agent {(x // 8) % 8} code {x % 8}"
                    ids.add(x // 64)
            x = int(torch.as_tensor(action[a])[r].reshape(-1)[0])
            if x % 8 != 7 or (x // 8) % 8 != a_idx:
                bad = f"action of agent {a} holds foreign value"
            ids.add(x // 64)
            x = int(torch.as_tensor(reward[a])[r].reshape(-1)[0])
            if x % 4 != a_idx:
                bad = f"reward of agent {a} belongs to agent {x % 4}"
            ids.add(x // 4)
            d = int(torch.as_tensor(done[a])[r].reshape(-1)[0])
            if len(ids) == 1 and d != (next(iter(ids)) + a_idx) % 2:
                bad = "done flag belongs to another transition/agent"
        if len(ids) != 1:
            bad = f"one row mixes transitions {sorted(ids)}"
        rows.append((next(iter(ids)) if len(ids) == 1 else None, bad))
    return rows


def _flat_tensors(batch):
    out = []
    for f in batch:
        for a in sorted(f):
            v = f[a]
            if isinstance(v, dict):
                out.extend(v[k] for k in sorted(v))
            elif isinstance(v, (tuple, list)):
                out.extend(v)
            else:
                out.append(v)
    return out


def run_multi(case, ctx):
    from agilerl.components.multi_agent_replay_buffer import MultiAgentReplayBuffer
    from agilerl.components.sampler import Sampler

    kind, cap, nag = case["obs"], case["cap"], case["agents"]
    agents = [f"agent_{j}" for j in range(nag)]
    pyrandom.seed(case["seed"])
    buf = MultiAgentReplayBuffer(cap, FIELDS, agents)
    sampler = Sampler(memory=buf)
    model = []
    next_id = 1
    handed = []
    wrapped = sampled_after_wrap = False
    used_vect = False

    for op in case["ops"]:
        if op[0] == "add":
            w = 1 + op[1] % cap
            vect = bool(op[2]) or w > 1
            ids = list(range(next_id, next_id + w))
            next_id += w
            args = ma_args(kind, ids, agents, vect, case.get("korder", 0))
            if case.get("korder", 0) and len(agents) > 1:
                ctx.label("multi:field-dicts-keyed-in-another-order")
            used_vect |= vect
            with ctx.promised("C09/multi/add", obs=kind, vectorised=vect):
                buf.save_to_memory(*args, is_vectorised=vect)
            model.extend(ids)
            wrapped |= len(model) > cap
        elif op[0] == "sample":
            if not model:
                continue
            n = min(cap, len(model))
            k = 1 + op[1] % n
            with ctx.promised("C09/multi/sample", obs=kind):
                b = sampler.sample(k)
            rows = ma_decode(kind, b, agents, k)
            live = set(model[-cap:])
            got = []
            for r, (i, bad) in enumerate(rows):
                if bad is not None or i not in live:
                    ctx.fail("C09/multi/sample_not_a_stored_transition",
                             "sample() returned a row that is not one intact stored transition",
                             row=r, decoded=i, problem=bad, k=k)
                got.append(i)
            ctx.check(len(set(got)) == len(got), "C09/multi/sample_duplicates",
                      "uniform multi-agent sample contains a transition twice", got=got)
            handed.append((b, [t.clone() for t in _flat_tensors(b)]))
            sampled_after_wrap |= wrapped
        else:
            continue  # the multi-agent buffer has no clear()

        n = min(cap, len(model))
        if not ctx.check(len(buf) == n, f"C09/multi/len/{kind}_{'vectorised' if used_vect else 'single'}",
                         "len(buffer) != min(capacity, added)", got=len(buf), want=n, op=op):
            continue
        if n > 0:
            # full scan through the public API: sampling len(buffer) rows without replacement is a permutation
            st_ = pyrandom.getstate()
            with ctx.promised("C09/multi/scan", obs=kind):
                full = buf.sample(n)
            pyrandom.setstate(st_)
            rows = ma_decode(kind, full, agents, n)
            bad = [(r, b) for r, (_, b) in enumerate(rows) if b]
            ctx.check(not bad, "C09/multi/stored_row_mixed", "a stored transition mixes agents/fields/transitions",
                      problems=bad[:3], op=op)
            ids = sorted(i for i, _ in rows if i is not None)
            ctx.check(ids == sorted(model[-cap:]) or bool(bad), "C09/multi/contents",
                      "buffer does not hold exactly the most recent transitions", got=ids,
                      want=sorted(model[-cap:]), op=op)
        for live, snap in handed:
            ok = all(torch.equal(torch.as_tensor(x), y) for x, y in zip(_flat_tensors(live), snap))
            ctx.check(ok, "C09/multi/handed_out_batch_changed", "an earlier batch was altered by a later operation", op=op)

    ctx.label("buffer=multi")
    ctx.label(f"obs={kind}")
    ctx.label("multi-vectorised" if used_vect else "multi-single")
    if wrapped:
        ctx.label("wrapped")
    if sampled_after_wrap:
        ctx.nontrivial({"b": "multi", "o": kind, "cap": cap, "a": nag, "ops": [o[0] for o in case["ops"]]})



# ----------------------------------------------------------------------------
# 1-step buffer fed through the n-step buffer (the pairing train_off_policy uses for Rainbow)
# ----------------------------------------------------------------------------

def run_paired(case, ctx):
    """MultiStepReplayBuffer.add() hands back the oldest raw transition of its window, and the training loop stores that value in the
    ordinary ReplayBuffer.  The 1-step buffer filled this way is still a C09 buffer: it must hold exactly the most recent transitions
    handed to it, each intact, and a transition handed out by add() must not be altered by later additions."""
    from agilerl.components.replay_buffer import MultiStepReplayBuffer, ReplayBuffer

    kind, cap, n, E = case["obs"], case["cap"], case["n"], case["width"]
    nbuf = MultiStepReplayBuffer(max_size=cap, n_step=n, gamma=0.5)
    mem = ReplayBuffer(max_size=cap)
    model, handed = [], []
    next_id, folded = 1, False
    for step in range(case["steps"]):
        ids = list(range(next_id, next_id + 2 * E, 2)) if case["parity"] == 2 else list(range(next_id, next_id + E))
        next_id = ids[-1] + (2 if case["parity"] == 2 else 1)
        td = sa_transition(kind, ids, E > 1 or bool(case["vect"]))
        with ctx.promised("C09/paired/add", obs=kind, n=n):
            one = nbuf.add(td)
            if one is not None:
                first_ids = [i for i, _ in sa_decode_rows(kind, one, E)]
                mem.add(one)
                handed.append((one, _snapshot(one)))
                model.extend(first_ids)
        if one is not None:
            rows = sa_decode_rows(kind, one, E)
            bad = [(r, b) for r, (_, b) in enumerate(rows) if b]
            ctx.check(not bad, "C09/paired/returned_row_mixed",
                      "the transition add() hands to the 1-step buffer mixes fields of different transitions", problems=bad[:3], step=step)
            if any(i is not None and i % 2 == 0 for i, _ in rows):
                folded = True  # window started with a non-terminal transition: the n-step fold went past it
        m = min(cap, len(model))
        ctx.check(len(mem) == m, "C09/paired/len", "len(1-step buffer) != min(capacity, rows handed over)", got=len(mem), want=m)
        if m > 0:
            rows = sa_decode_rows(kind, mem.storage[:m], m)
            bad = [(r, b) for r, (_, b) in enumerate(rows) if b]
            ctx.check(not bad, "C09/paired/stored_row_mixed", "a row of the 1-step buffer mixes fields of different transitions",
                      problems=bad[:3], step=step)
            got = sorted(i for i, _ in rows if i is not None)
            want = sorted(x for x in model[-cap:] if x is not None)
            ctx.check(got == want or bool(bad), "C09/paired/contents",
                      "1-step buffer does not hold exactly the most recent transitions handed over", got=got, want=want)
        for live, snap in handed:
            ctx.check(_same_td(live, snap), "C09/paired/handed_out_transition_changed",
                      "a transition handed out by add() was altered by a later addition", step=step)
    ctx.label("buffer=paired")
    ctx.label(f"obs={kind}")
    if len(model) > cap:
        ctx.label("wrapped")
    if folded and len(model) >= E:
        ctx.label("paired:fold-past-first")
        ctx.nontrivial({"b": "paired", "o": kind, "cap": cap, "n": n, "E": E, "steps": case["steps"], "p": case["parity"]})

# ----------------------------------------------------------------------------

def _ops(max_ops, with_clear):
    add = st.tuples(st.just("add"), st.integers(0, 63), st.integers(0, 1))
    smp = st.tuples(st.just("sample"), st.integers(0, 63))
    choices = [add, add, smp]
    if with_clear:
        choices.append(st.tuples(st.just("clear")))
    return st.lists(st.one_of(*choices), min_size=1, max_size=max_ops).map(lambda l: [list(x) for x in l])


@st.composite
def single_strategy(draw, tier):
    big = tier == "thorough"
    return {
        "per": draw(st.booleans()),
        "obs": draw(st.sampled_from(OBS_KINDS)),
        "cap": draw(st.integers(1, 64 if big else 12)),
        "seed": draw(st.integers(0, 2**16)),
        "ops": draw(_ops(120 if big else 30, True)),
    }


@st.composite
def multi_strategy(draw, tier):
    big = tier == "thorough"
    return {
        "obs": draw(st.sampled_from(OBS_KINDS)),
        "agents": draw(st.integers(1, 3)),
        "cap": draw(st.integers(1, 32 if big else 10)),
        "seed": draw(st.integers(0, 2**16)),
        "ops": draw(_ops(80 if big else 24, False)),
        "korder": draw(st.sampled_from([0, 0, 1, 2])),
    }

@st.composite
def paired_strategy(draw, tier):
    big = tier == "thorough"
    width = draw(st.integers(1, 4))
    return {
        "obs": draw(st.sampled_from(["scalar", "vector", "image", "dict"])),
        "width": width,
        "vect": draw(st.integers(0, 1)),
        "n": draw(st.integers(2, 5)),
        "cap": width * draw(st.integers(1, 12 if big else 6)),
        "steps": draw(st.integers(1, 60 if big else 24)),
        # ids advance by 1 (done flag = id % 2 alternates: many windows cut) or by 2 (all even / non-terminal: every window is full)
        "parity": draw(st.sampled_from([1, 2])),
    }


PROPERTY = Property(
    id="C09",
    level="exploration",
    rule=("op lists (add width 1..capacity single/vectorised, sample k<=len, clear) over ReplayBuffer, PrioritizedReplayBuffer and "
          "MultiAgentReplayBuffer with id-tagged transitions (every field/member/agent encodes the transition id), checked against a "
          "reference ring after every op; non-trivial = the buffer wrapped and was sampled afterwards; distinct by (buffer, obs kind, capacity, op-kind sequence)"),
    obligations=[
        Obligation("single_agent_buffer", run_single, strategy=single_strategy,
                   examples={"quick": 800, "thorough": 6000}, shards={"quick": 8, "thorough": 16}),
        Obligation("multi_agent_buffer", run_multi, strategy=multi_strategy,
                   examples={"quick": 500, "thorough": 5000}, shards={"quick": 8, "thorough": 16}),
        Obligation("paired_n_step_buffer", run_paired, strategy=paired_strategy,
                   examples={"quick": 400, "thorough": 4000}, shards={"quick": 8, "thorough": 16}),
    ],
    assumptions=["transitions are built with agilerl.components.data.Transition exactly as the training loops do",
                 "the multi-agent buffer is scanned through sample(len) (a permutation of its content)"],
    wanted_labels=["buffer=uniform", "buffer=per", "buffer=multi", "multi:field-dicts-keyed-in-another-order", "wrapped", "cleared", "sample-after-clear",
                   "obs=dict", "obs=tuple", "obs=image", "multi-vectorised", "buffer=paired", "paired:fold-past-first"],
    fuzz=['single_agent_buffer', 'multi_agent_buffer'],
)
