"""C12 - the vectorised PettingZoo environment equals N independent environments; the single-env auto-reset wrapper
restarts episodes under the same condition."""
from __future__ import annotations

import numpy as np
from hypothesis import strategies as st

from vp.core import isolate
from vp.core.engine import HarnessError, Obligation, Property
from vp.gen import pzenvs as pz
from vp.gen import pzoracle as po

WATCHDOG_S = 90.0


# ---------------------------------------------------------------------------
# obligation 1: AsyncPettingZooVecEnv against the sequential reference (runs in a sacrificial child)
# ---------------------------------------------------------------------------

def _vec_child(case):
    import warnings

    warnings.filterwarnings("ignore")
    spec, n = case["spec"], case["n"]
    F = po.Findings()
    ref = pz.SequentialReference(spec, n)
    state = {"finish_steps": [[] for _ in range(n)], "left_seen": False}
    _vec_body(case, F, ref, state)
    finish_steps = state["finish_steps"]
    F.label(f"obs={spec['obs']}")
    F.label(f"dtype-variant={spec['obs']}:{spec['dt'] % (6 if spec['obs'] == 'vector' else 3)}")
    F.label(f"act={spec['act']}")
    F.label(f"copy={case['copy']}")
    F.label(f"n_envs={n}")
    F.label(f"agents={spec['agents']}")
    for kind in sorted(set(ref.envs[i].end for i in range(n) if finish_steps[i])):
        F.label(f"ended-by={kind}")
    if state["left_seen"]:
        F.label("agent-left-early")
    if any(finish_steps):
        F.label("auto-reset-seen")
    firsts = sorted(set(f[0] for f in finish_steps if f))
    if len(firsts) >= 2:
        F.label("interleaved-resets")
        F.nontrivial = {"n": n, "spec": {k: spec[k] for k in ("agents", "obs", "dt", "act", "lens", "end", "leave")},
                        "fin": finish_steps, "copy": case["copy"]}
    return F.out()


def _vec_body(case, F, ref, state):
    from agilerl.vector.pz_async_vec_env import AsyncPettingZooVecEnv

    spec, n = case["spec"], case["n"]
    P = "C12/vec"
    rng = np.random.default_rng(case["aseed"])
    isolate.progress("construct")
    try:
        vec = AsyncPettingZooVecEnv(pz.make_env_fns(spec, n), copy=case["copy"])
    except Exception as e:  # noqa: BLE001
        F.exc(f"{P}/construct", e)
        return

    def do_reset(seed, options, where):
        isolate.progress("reset")
        try:
            out = vec.reset(seed=seed, options=options)
        except Exception as e:  # noqa: BLE001
            F.exc(f"{P}/reset", e, where=where)
            return False
        ref_out = ref.reset(seed=seed, options=options)
        po.compare_reset(F, P, vec, n, out, ref_out, where)
        return True

    if not do_reset(case["seed"], case["options"], "first reset"):
        return
    finish_steps = state["finish_steps"]
    prev = None
    for s in range(case["steps"]):
        if case["rereset"] is not None and s == case["rereset"]:
            if not do_reset(case["seed2"], None, f"explicit reset before step {s}"):
                return
            prev = None
            F.label("explicit-mid-run-reset")
        actions = pz.sample_actions(spec, n, rng)
        absent_before = any(len(e.agents) < len(e.possible_agents) for e in ref.envs)
        recs = ref.step(actions)
        for i, r in enumerate(recs):
            if r["reset"]:
                finish_steps[i].append(s)
            if len(r["present"]) < spec["agents"]:
                state["left_seen"] = True
        isolate.progress("step")
        # a dict names its agents: the same actions under another key (insertion) order are the same call
        keys = list(actions)
        order = case.get("korder", 0)
        if order == 1:
            keys = keys[::-1]
        elif order == 2:
            keys = keys[(s + 1) % len(keys):] + keys[: (s + 1) % len(keys)]
        if keys != list(actions):
            F.label("action-dict-keys-not-in-declared-order")
        passed = {k: actions[k] for k in keys}
        try:
            out = vec.step(passed)
        except Exception as e:  # noqa: BLE001
            site = f"{P}/step_with_absent_agent" if (absent_before or any(len(r["term"]) < spec["agents"] for r in recs)) else f"{P}/step"
            F.exc(site, e, where=f"step {s}")
            return
        prev = po.compare_step(F, P, vec, n, out, recs, prev, f"step {s}")
    # the scripts' own counters: which sub-environments were restarted, how often
    isolate.progress("call")
    try:
        stats = vec.call("stats")
    except Exception as e:  # noqa: BLE001
        F.exc(f"{P}/call", e)
        return
    for i, (got, e) in enumerate(zip(stats, ref.envs)):
        if (got["episode"], got["t"], got["total_steps"]) != (e.episode, e.t, e.total_steps):
            F.fail(f"{P}/episode_bookkeeping", f"after the run sub-environment {i} is in episode {got['episode']} at t={got['t']} "
                   f"({got['total_steps']} steps taken); stepped alone it is in episode {e.episode} at t={e.t} ({e.total_steps} steps)",
                   env=i)
        if got["action_shape_errors"]:
            F.fail(f"{P}/action_shape_changed_on_delivery", f"sub-environment {i} received an action of shape "
                   f"{got['action_shape_errors'][0][1]} for {got['action_shape_errors'][0][0]}; its action space and the batch passed to "
                   f"step() have shape {got['action_shape_errors'][0][2]}", env=i, errors=got["action_shape_errors"])
    isolate.progress("close")
    try:
        vec.close()
    except Exception as e:  # noqa: BLE001  (not promised by C12; C13 decides)
        F.label(f"close-raised:{type(e).__name__}")



def run_vec(case, ctx):
    r = isolate.run_isolated(_vec_child, case, WATCHDOG_S)
    if r["status"] == "ok":
        po.Findings.replay(r["result"], ctx)
        return
    if r["status"] == "timeout":
        last = r["progress"][-1] if r["progress"] else "start"
        ctx.label(f"watchdog-timeout-in:{last}")
        if last in ("reset", "step", "call"):
            # the statement promises that reset/step RETURN these values on this (fault-free) domain
            ctx.abort(f"C12/vec/{last}_does_not_return", f"{last}() did not return within {WATCHDOG_S:.0f} s on a fault-free "
                      "scripted environment (watchdog killed the case)", calls=r["progress"][-6:])
        return
    raise HarnessError(f"C12 child crashed: {r['result']}")


# ---------------------------------------------------------------------------
# obligation 2: PettingZooAutoResetParallelWrapper on one env (in-process)
# ---------------------------------------------------------------------------

def _eq_dict(got, want, cast):
    return set(got.keys()) == set(want.keys()) and all(cast(got[a]) == cast(want[a]) for a in want)


def run_wrapper(case, ctx):
    from agilerl.wrappers.pettingzoo_wrappers import PettingZooAutoResetParallelWrapper

    spec = case["spec"]
    P = "C12/wrapper"
    inner = pz.ScriptedPZ(spec, 0, live=False)
    ref = pz.SequentialReference(spec, 1)
    with ctx.promised(f"{P}/construct"):
        env = PettingZooAutoResetParallelWrapper(inner)
    with ctx.promised(f"{P}/reset"):
        obs, info = env.reset(seed=case["seed"], options=case["options"])
    (robs, rinfo), = ref.reset(seed=case["seed"], options=case["options"])
    spaces_ = {a: inner.observation_space(a) for a in inner.possible_agents}
    ctx.check(all(po.same_obs(spaces_[a], obs[a], robs[a]) for a in robs), f"{P}/reset_obs", "reset() observation differs from the env's")
    rng = np.random.default_rng(case["aseed"])
    finishes = []
    for s in range(case["steps"]):
        batched = pz.sample_actions(spec, 1, rng)
        acts = {a: (int(v[0]) if v.ndim == 1 else v[0]) for a, v in batched.items()}
        rec = ref.step(batched)[0]
        ep_before = inner.episode
        with ctx.promised(f"{P}/step", step=s):
            obs, rew, term, trunc, info = env.step(acts)
        restarted = inner.episode != ep_before
        where = f"step {s}"
        ctx.check(_eq_dict(rew, rec["rew"], float), f"{P}/reward_value", "rewards differ from the final step's", where=where,
                  got=rew, want=rec["rew"])
        ctx.check(_eq_dict(term, rec["term"], bool), f"{P}/termination_value", "", where=where, got=term, want=rec["term"])
        ctx.check(_eq_dict(trunc, rec["trunc"], bool), f"{P}/truncation_value", "", where=where, got=trunc, want=rec["trunc"])
        if rec["reset"]:
            finishes.append(s)
            by_trunc = any(rec["trunc"][a] and not rec["term"][a] for a in rec["present"])
            ctx.label("wrapper-episode-finished-with-truncation" if by_trunc else "wrapper-episode-finished-by-termination")
            if not restarted:
                cls = "no_restart_when_finished_by_truncation" if by_trunc else "no_restart_when_all_terminated"
                ctx.fail(f"{P}/{cls}", "every agent is terminated or truncated after this step but the wrapper did not reset the "
                         "environment", where=where, terminations=rec["term"], truncations=rec["trunc"], end=inner.end)
                env.reset()  # re-synchronise with the reference and keep exploring
                continue
            ok = set(obs.keys()) == set(rec["obs"].keys()) and all(po.same_obs(spaces_[a], obs[a], rec["obs"][a]) for a in rec["obs"])
            ctx.check(ok, f"{P}/obs_after_restart", "the observation returned after the automatic reset is not the first observation of "
                      "the new episode", where=where)
            ok_info = _info_eq(info, rec["info"]) or _info_eq(info, rec["reset_info"])
            ctx.check(ok_info, f"{P}/info_value", "info is neither the final step's nor the new episode's", where=where)
        else:
            if restarted:
                ctx.abort(f"{P}/restart_before_all_finished", "the wrapper reset the environment although an agent is neither terminated "
                          "nor truncated", where=where, terminations=rec["term"], truncations=rec["trunc"])
            ok = set(obs.keys()) == set(rec["obs"].keys()) and all(po.same_obs(spaces_[a], obs[a], rec["obs"][a]) for a in rec["obs"])
            ctx.check(ok, f"{P}/obs_value", "observation differs from the wrapped environment's", where=where)
            ctx.check(_info_eq(info, rec["info"]), f"{P}/info_value", "info differs from the wrapped environment's", where=where)
            if len(rec["present"]) < spec["agents"]:
                ctx.label("wrapper-agent-left-early")
    ctx.label(f"wrapper-end={inner.end}")
    if finishes:
        ctx.nontrivial({"spec": {k: spec[k] for k in ("agents", "lens", "end", "leave")}, "fin": finishes})


def _info_eq(got, want):
    if set(got.keys()) != set(want.keys()):
        return False
    for a, d in want.items():
        g = got[a]
        if set(g.keys()) != set(d.keys()):
            return False
        for k, v in d.items():
            if isinstance(v, np.ndarray):
                if not np.array_equal(g[k], v):
                    return False
            elif g[k] != v:
                return False
    return True


# ---------------------------------------------------------------------------
# generators
# ---------------------------------------------------------------------------

@st.composite
def spec_strategy(draw, n, max_len=6):
    agents = draw(st.integers(1, 3))
    lens = [draw(st.lists(st.integers(1, max_len), min_size=1, max_size=3)) for _ in range(n)]
    ends = [draw(st.sampled_from(pz.ENDS)) for _ in range(n)]
    leave = []
    for _ in range(n):
        d = {}
        if agents >= 2 and draw(st.integers(0, 3)) == 0:
            for k in range(1, agents):
                if draw(st.booleans()):
                    d[str(k)] = draw(st.integers(1, max_len - 1))
        leave.append(d)
    return {"agents": agents, "obs": draw(st.sampled_from(pz.KINDS)), "dt": draw(st.integers(0, 5)),
            "act": draw(st.sampled_from(pz.ACTS)), "lens": lens, "end": ends, "leave": leave,
            "info": draw(st.integers(0, 2)), "layout": draw(st.sampled_from([0, 0, 1])),
            "sleep_us": [draw(st.lists(st.sampled_from([0, 0, 200, 1000, 3000]), min_size=1, max_size=4)) for _ in range(n)]}


@st.composite
def vec_strategy(draw, tier):
    n = draw(st.integers(1, 4))
    steps = draw(st.integers(1, 12))
    rereset = draw(st.none() | st.integers(0, steps - 1)) if draw(st.integers(0, 4)) == 0 else None
    return {"n": n, "spec": draw(spec_strategy(n)), "copy": draw(st.booleans()), "steps": steps,
            "seed": draw(st.none() | st.integers(0, 50)), "seed2": draw(st.none() | st.integers(0, 50)),
            "options": draw(st.none() | st.fixed_dictionaries({"offset": st.integers(0, 9)})),
            "rereset": rereset, "aseed": draw(st.integers(0, 9999)), "korder": draw(st.sampled_from([0, 0, 1, 2]))}


@st.composite
def wrapper_strategy(draw, tier):
    spec = draw(spec_strategy(1))
    spec["sleep_us"] = [[0]]
    return {"spec": spec, "steps": draw(st.integers(1, 16)), "seed": draw(st.none() | st.integers(0, 50)),
            "options": draw(st.none() | st.fixed_dictionaries({"offset": st.integers(0, 9)})),
            "aseed": draw(st.integers(0, 9999))}


PROPERTY = Property(
    id="C12",
    level="exploration",
    rule=("a scripted deterministic ParallelEnv family (observation/reward/info pure functions of instance, seed, episode, t, agent, "
          "action; per-instance episode-length cycles; ending by termination / truncation only / mixed; agents that leave early; "
          "vector/image/dict/tuple observation spaces over float32/float64/int64/int32/int8/uint8 with per-agent shapes; Discrete, "
          "MultiDiscrete and Box actions) x 1-4 sub-environments x 1-3 agents x <= 12 steps x copy flag x drawn per-step worker "
          "sleeps x seeds/options x optional explicit mid-run reset; AsyncPettingZooVecEnv (in a watchdogged child process) is compared "
          "position by position with N in-process instances stepped sequentially under the documented auto-reset rule (values, declared "
          "shapes and dtypes, rewards, terminations, truncations, infos with masks, the scripts' own episode counters read back through "
          "call). The same generator drives PettingZooAutoResetParallelWrapper on one env. non-trivial = at least two sub-environments "
          "finish their first episode at different steps of the run (interleaved resets) / the wrapped env finished an episode; "
          "distinct by (script, finish steps, copy)"),
    obligations=[
        Obligation("vec_equals_sequential", run_vec, strategy=vec_strategy,
                   examples={"quick": 40, "thorough": 320}, shards={"quick": 12, "thorough": 16},
                   shrink_budget={"quick": 40, "thorough": 200}),
        Obligation("autoreset_wrapper", run_wrapper, strategy=wrapper_strategy,
                   examples={"quick": 600, "thorough": 2500}, shards={"quick": 4, "thorough": 4},
                   shrink_budget={"quick": 200, "thorough": 600}),
    ],
    assumptions=["the action dict is keyed by agent name; its key (insertion) order is drawn (declared / reversed / rotated per step) - "
                 "IPPO returns its actions grouped by shared policy, not in the environment's declared order",
                 "actions are handed to step() as the training loops do: (num_envs,) integer arrays for Discrete, (num_envs, *shape) "
                 "arrays otherwise",
                 "reset(seed=s) hands seed s+i to sub-environment i (the gymnasium vector convention this class implements); the "
                 "reference resets instance i with s+i",
                 "for an agent that has left its episode only shape/dtype of the observation and terminated=True are required",
                 "at the step that finishes an episode either the final step's info or the new episode's info is accepted",
                 "real OS schedules are sampled (worker sleeps), not enumerated; a watchdog timeout counts as a violation only inside "
                 "reset()/step()/call() on this fault-free domain, never inside close()"],
    wanted_labels=["interleaved-resets", "auto-reset-seen", "agent-left-early", "action-dict-keys-not-in-declared-order", "ended-by=term", "ended-by=trunc", "ended-by=mixed",
                   "obs=vector", "obs=image", "obs=dict", "obs=tuple", "copy=True", "copy=False",
                   "wrapper-episode-finished-with-truncation", "wrapper-episode-finished-by-termination"],
)
