"""C14 - every selected action is a legal member of the action space.

Three obligations, all driving the real ``get_action`` of every learner:

* ``mask_exhaustive`` (enumerated): learner x small discrete action space (<= 5 mask entries) x weight scaling
  (0 = all scores tie, 1, 30 = scores of magnitude 1e2..1e3); inside a case EVERY legal-action mask of the space
  (2^n - 1 for Discrete(n); every combination with >= 1 legal entry per component for MultiDiscrete; all 2^n for
  MultiBinary) is presented, as one vectorised batch and as single un-batched observations, under every exploration
  setting of the learner.
* ``single_agent`` (Hypothesis): DQN / DDQN / Rainbow / CQN / DDPG / TD3 / PPO / NeuralUCB / NeuralTS x action-space kind x
  observation family x drawn weights; one built learner serves 20-28 drawn calls (batch form, exploration setting, mask).
* ``multi_agent`` (Hypothesis): MADDPG / MATD3 / IPPO with per-agent masks and ``env_defined_actions`` in ``infos``.

Oracle per call (written from the statement): leading dimension == number of observation rows (a single un-batched
observation is a batch of one: the training loops take ``action[0]``), each row is a member of the action space after
casting to the space dtype (deterministic continuous learners in both modes, PPO / IPPO Box only in evaluation mode), a
masked action is never returned (also in the random branch), with exploration off the action is an arg-max over the ALLOWED
actions of the policy network's own scores (computed here by calling the network on the preprocessed observation; ties:
any maximiser), environment-defined actions are returned verbatim.
"""
from __future__ import annotations

import itertools
import os

import numpy as np
import torch
from gymnasium import spaces
from hypothesis import strategies as st

from vp.core import engine
from vp.core.engine import HarnessError, Obligation, Property, Violation, _AbortCase, site_of
from vp.gen import agents as ag
from vp.gen import spaces as sp

EPS_ALGOS = ["DQN", "DDQN", "CQN"]
DISCRETE_Q = ["DQN", "DDQN", "Rainbow", "CQN"]
CONT = ["DDPG", "TD3"]
BANDITS = ["NeuralUCB", "NeuralTS"]
MA_OFF = ["MADDPG", "MATD3"]
SINGLE_ALGOS = DISCRETE_Q + CONT + ["PPO"] + BANDITS
MULTI_ALGOS = MA_OFF + ["IPPO"]
BOX_KINDS = ["box", "box_asym", "box_perdim", "box_first_widest", "box_awkward"]
OBJECT_MASK_OK = ("DQN", "DDQN", "Rainbow", "PPO")  # get_action stacks object arrays (what a gymnasium vector env puts in infos)
TOL = 1e-5


# ---------------------------------------------------------------------------------------------------------------
# spaces and learners from JSON
# ---------------------------------------------------------------------------------------------------------------

def make_act(d):
    k = d["k"]
    if k == "discrete":
        return spaces.Discrete(int(d["n"]))
    if k == "multidiscrete":
        return spaces.MultiDiscrete([int(x) for x in d["nvec"]])
    if k == "multibinary":
        return spaces.MultiBinary(int(d["n"]))
    if k in ("box", "box_asym", "box_perdim"):
        return sp.act_space(k, d.get("v", 0))
    if k == "box_first_widest":  # the first dimension has the widest interval
        return spaces.Box(np.array([-2.0, -1.0, -0.5], np.float32), np.array([2.0, 1.0, 0.25], np.float32), dtype=np.float32)
    if k == "box_awkward":  # bounds that are not dyadic rationals: low + (high - low) need not round to high in float32
        return spaces.Box(np.array([-1.5, -0.3, 0.1], np.float32), np.array([0.2, 0.7, 0.9], np.float32), dtype=np.float32)
    raise HarnessError(f"action kind {k}")


def bounds_class(space):
    uniform = bool(np.all(space.low == space.low.flat[0]) and np.all(space.high == space.high.flat[0]))
    return "uniform_bounds" if uniform else "per_dimension_bounds"


def default_bounds(space):
    return bool(np.all(space.low == -1.0) and np.all(space.high == 1.0))


def mask_width(space):
    if isinstance(space, spaces.Discrete):
        return int(space.n)
    if isinstance(space, spaces.MultiDiscrete):
        return int(sum(space.nvec))
    if isinstance(space, spaces.MultiBinary):
        return int(space.n)
    return 0


def components(space):
    """[(offset, size)] of the categorical components a mask must leave >= 1 legal entry in"""
    if isinstance(space, spaces.Discrete):
        return [(0, int(space.n))]
    if isinstance(space, spaces.MultiDiscrete):
        out, off = [], 0
        for n in space.nvec:
            out.append((off, int(n)))
            off += int(n)
        return out
    return []  # MultiBinary: every bit pattern leaves the all-zero action legal


def mask_row(space, bits):
    """legal-action mask (width,) int8 from a drawn integer; every categorical component keeps >= 1 legal entry"""
    w = mask_width(space)
    m = np.array([(int(bits) >> i) & 1 for i in range(w)], dtype=np.int8)
    for off, n in components(space):
        if m[off:off + n].sum() == 0:
            m[off + int(bits) % n] = 1
    return m


def all_mask_bits(space):
    if isinstance(space, spaces.MultiBinary):
        return list(range(2 ** int(space.n)))
    per = []
    for off, n in components(space):
        per.append([b << off for b in range(1, 2 ** n)])
    return [sum(c) for c in itertools.product(*per)]


def spaces_of(spec):
    algo = spec["algo"]
    act = make_act(spec["act"])
    if algo in BANDITS:
        return spaces.Box(-1.0, 1.0, (3 + spec.get("obsv", 0) % 2,), np.float32), act
    obs = sp.obs_space(spec.get("obs", "vector"), spec.get("obsv", 0))
    if algo in MULTI_ALGOS:
        n = spec.get("n_agents", 3)
        acts = [act for _ in range(n)]
        if spec.get("other_bounds") and isinstance(act, spaces.Box):
            # the agent that is not homogeneous with the first ones (id prefix b) acts in a Box of the same dimension but other bounds
            w = act.high - act.low
            other = spaces.Box((act.low + 0.3 * w).astype(np.float32), (act.high - 0.1 * w).astype(np.float32), dtype=np.float32)
            acts = [other if ag.AGENT_IDS[i].startswith("b") else act for i in range(n)]
        return [obs for _ in range(n)], acts
    return obs, act


def build(spec):
    from agilerl.algorithms import CQN, DDPG, DQN, IPPO, MADDPG, MATD3, PPO, TD3, NeuralTS, NeuralUCB, RainbowDQN

    algo = spec["algo"]
    ag.seed_all(spec.get("seed", 0))
    obs, act = spaces_of(spec)
    hp = ag.default_hp(algo)
    hp.update(spec.get("hp", {}))
    first = obs[0] if isinstance(obs, list) else obs
    kw = dict(net_config=ag.net_config(first, algo), index=0)
    if "out_act" in spec:
        # a head whose output is not squashed into the rescale interval (None / "ReLU") or squashed by another function: the
        # learner's own clipping is then the only thing that keeps actions legal
        kw["net_config"]["head_config"]["output_activation"] = spec["out_act"]
    kw.update(hp)
    if algo == "DQN":
        return DQN(obs, act, **kw)
    if algo == "DDQN":
        return DQN(obs, act, double=True, **kw)
    if algo == "Rainbow":
        return RainbowDQN(obs, act, **kw)
    if algo == "CQN":
        return CQN(obs, act, **kw)
    if algo == "DDPG":
        return DDPG(obs, act, share_encoders=False, **kw)
    if algo == "TD3":
        return TD3(obs, act, share_encoders=False, **kw)
    if algo == "PPO":
        return PPO(obs, act, share_encoders=False, **kw)
    if algo == "NeuralUCB":
        return NeuralUCB(obs, act, **kw)
    if algo == "NeuralTS":
        return NeuralTS(obs, act, **kw)
    ids = ag.AGENT_IDS[: len(obs)]
    if algo == "MADDPG":
        return MADDPG(obs, act, ids, **kw)
    if algo == "MATD3":
        return MATD3(obs, act, ids, **kw)
    if algo == "IPPO":
        return IPPO(obs, act, ids, **kw)
    raise HarnessError(algo)


def shape_weights(nets, wseed, wnoise, wf):
    """drawn weights: add seeded noise (untrained small networks are nearly constant), then scale every parameter by wf
    (0: all scores tie; 30: scores / logits / pre-squash outputs of magnitude 1e2..1e3)"""
    g = torch.Generator().manual_seed(int(wseed))
    with torch.no_grad():
        for net in nets:
            for p in net.parameters():
                if p.is_floating_point():
                    p.add_(torch.randn(p.shape, generator=g) * float(wnoise))
                    p.mul_(float(wf))


def _guard(ctx, algo_, branch_, fn, **details):
    """An AgileRL call the statement promises to return an action on this domain -> (ok, result).  The class of a failure
    is the innermost AgileRL frame; the exploration branch is part of it only when that frame is get_action itself."""
    try:
        return True, fn()
    except (Violation, _AbortCase, HarnessError, KeyboardInterrupt):
        raise
    except Exception as e:  # noqa: BLE001 - 'whatever the observation, exploration setting or training mode, the action an agent returns ...'
        site = site_of(e)
        where = f"{branch_}/" if site.split(":")[-1] in ("get_action", "_get_action", "outside-agilerl") else ""
        ctx.fail(f"C14/raises/{algo_}/{where}{type(e).__name__}@{site}", f"{type(e).__name__}: {str(e)[:200]}", **details)
        return False, None


def bits_of(M):
    """(rows, width) 0/1 -> one integer per row (JSON-able identity of a mask)"""
    return [int(sum(int(v) << i for i, v in enumerate(row))) for row in np.asarray(M)]


def _mask_arg(M, form, single):
    """M: (rows, width) int8 -> the value handed to get_action / put into infos"""
    if single:
        return M[0].astype(np.int64 if form == "int64" else np.int8)
    if form == "object":
        out = np.empty(M.shape[0], dtype=object)
        for i in range(M.shape[0]):
            out[i] = M[i].astype(np.int8)
        return out
    return M.astype(np.int64 if form == "int64" else np.int8)


# ---------------------------------------------------------------------------------------------------------------
# row-wise oracles
# ---------------------------------------------------------------------------------------------------------------

def row_member(space, row):
    """row (already of the space's shape) is an element of the space after casting to the space dtype"""
    row = np.asarray(row)
    if not np.all(np.isfinite(row.astype(np.float64))):
        return False
    if isinstance(space, spaces.Discrete):
        if float(row) != float(int(row)):
            return False
        return bool(space.contains(np.asarray(row).astype(space.dtype)[()]))
    if not isinstance(space, spaces.Box) and not np.all(row.astype(np.float64) == np.rint(row.astype(np.float64))):
        return False
    return bool(space.contains(row.astype(space.dtype)))


def row_mask_ok(space, row, m):
    """the action does not use an entry the mask forbids"""
    row = np.asarray(row)
    if isinstance(space, spaces.Discrete):
        a = int(row)
        return 0 <= a < space.n and bool(m[a])
    if isinstance(space, spaces.MultiDiscrete):
        for (off, n), a in zip(components(space), row.reshape(-1)):
            a = int(a)
            if not (0 <= a < n) or not m[off + a]:
                return False
        return True
    if isinstance(space, spaces.MultiBinary):
        return bool(np.all((row.reshape(-1) == 0) | (m == 1)))
    return True


def row_greedy_ok(scores, a, m):
    """a is an arg-max of ``scores`` over the entries ``m`` allows (ties and float noise: any maximiser within TOL)"""
    s = np.asarray(scores, dtype=np.float64).reshape(-1)
    allowed = np.flatnonzero(np.asarray(m).reshape(-1) != 0)
    best = np.max(s[allowed])
    if not (0 <= int(a) < s.size):
        return False
    return bool(s[int(a)] >= best - TOL * max(1.0, abs(best)))


def check_shape(ctx, sig, arr, rows, space, multi_agent, details):
    """leading dimension == observation rows and every row shaped like an element of the space.  Returns the array
    reshaped to (rows, *space.shape) or None."""
    want = (rows, *space.shape)
    ok = tuple(arr.shape) == want
    if not ok and multi_agent and isinstance(space, spaces.Discrete) and tuple(arr.shape) == (rows, 1):
        ok = True  # multi-agent learners hand Discrete actions to the (vector) env as one column per environment
    if not ok:
        ctx.fail(sig, f"action has shape {tuple(arr.shape)} for {rows} observation row(s) of {space}: expected {want}",
                 got_shape=list(arr.shape), want_shape=list(want), **details)
        return None
    return arr.reshape(want)


# ---------------------------------------------------------------------------------------------------------------
# single-agent learners
# ---------------------------------------------------------------------------------------------------------------

def branch_of(algo, x):
    if algo in EPS_ALGOS:
        return "greedy" if x == 0 else "explore" if x >= 1 else "mixed"
    if algo in BANDITS:
        return "act"
    return "train" if x else "eval"


def _scores_single(agent, algo, obs):
    """the policy network's own scores (rows, n) for the observation, exploration off"""
    with torch.no_grad():
        prep = agent.preprocess_observation(obs)
        if algo in ("DQN", "DDQN") or algo in BANDITS:
            q = agent.actor(prep)
        else:
            was = agent.actor.training
            agent.actor.eval()
            q = agent.actor(prep)
            agent.actor.train(was)
    return q.detach().double().numpy()


def _act_single(agent, algo, obs, x, mask_arg):
    if algo in EPS_ALGOS:
        return agent.get_action(obs, float(x), action_mask=mask_arg) if mask_arg is not None else agent.get_action(obs, float(x))
    if algo == "Rainbow":
        return agent.get_action(obs, action_mask=mask_arg, training=bool(x))
    if algo in CONT:
        return agent.get_action(obs, training=bool(x))
    if algo == "PPO":
        agent.set_training_mode(bool(x))
        out = agent.get_action(obs, action_mask=mask_arg) if mask_arg is not None else agent.get_action(obs)
        return out[0]
    return agent.get_action(obs, action_mask=mask_arg) if mask_arg is not None else agent.get_action(obs)


def one_single_call(ctx, agent, spec, obs_space, act_space, call, details):
    """one get_action call of a single-agent learner and every clause of the oracle on its result"""
    algo = spec["algo"]
    kind = spec["act"]["k"]
    x = call["x"]
    form, B = call["f"], int(call["B"])
    V = int(spec.get("hp", {}).get("vect_noise_dim", 1))
    if algo in CONT and x:  # exploration noise has vect_noise_dim rows: the observation has as many
        if V > 1:
            form, B = "batch", V
        elif form == "batch":
            form = "batch1"
    rows = B if form == "batch" else 1
    branch = branch_of(algo, x)
    ctx.label(f"{algo}|{branch}")
    if branch == "mixed":  # 0 < epsilon < 1: exploration is on (one class with epsilon = 1; the label keeps them apart)
        branch = "explore"
    rng = np.random.default_rng(call["s"])
    bandit = algo in BANDITS
    if bandit:
        obs = rng.uniform(-1, 1, size=(act_space.n, *obs_space.shape)).astype(np.float32)  # one context row per arm
        rows, form = 1, "context"
    else:
        obs = sp.sample_obs(obs_space, None if form == "single" else rows, rng)
    bits = call.get("m")
    M = None
    mask_arg = None
    if bits is not None and mask_width(act_space):
        M = np.stack([mask_row(act_space, bits[i % len(bits)]) for i in range(rows)])
        mform = call.get("mf", "int8")
        if mform == "object" and (algo not in OBJECT_MASK_OK or form != "batch"):
            mform = "int8"
        mask_arg = _mask_arg(M, mform, single=(form == "single" or bandit))
    d = dict(details, call=call, form=form, rows=rows, branch=branch)

    ag.seed_all(call["s"])
    ok, out = _guard(ctx, algo, branch, lambda: _act_single(agent, algo, obs, x, mask_arg), **d)
    ctx.label("calls")
    ctx.label(f"form={form}")
    if M is not None:
        ctx.label(f"{algo}|masked")
    if not ok:
        return
    arr = np.asarray(out)

    # ---- batch shape ------------------------------------------------------------------------------------------
    if bandit:
        if arr.shape != ():
            ctx.fail(f"C14/batch_shape/{algo}/{branch}", f"a bandit action is one arm index, got shape {arr.shape}", **d)
            return
        a2 = arr.reshape(1)
    else:
        a2 = check_shape(ctx, f"C14/batch_shape/{algo}/{branch}", arr, rows, act_space, False, d)
        if a2 is None:
            return

    # ---- membership -------------------------------------------------------------------------------------------
    is_box = isinstance(act_space, spaces.Box)
    promised_bounds = not (algo == "PPO" and is_box and x)  # training-mode policy-gradient Box actions are not clipped
    if promised_bounds:
        for r in range(rows):
            if not row_member(act_space, a2[r]):
                sig = (f"C14/bounds/{algo}/{branch}/{bounds_class(act_space)}" if is_box else f"C14/member/{algo}/{kind}/{branch}")
                ctx.fail(sig, f"row {r} = {np.asarray(a2[r]).tolist()} is not an element of {act_space}", row=r,
                         action=np.asarray(a2[r]).tolist(), low=getattr(act_space, "low", np.zeros(0)).tolist(),
                         high=getattr(act_space, "high", np.zeros(0)).tolist(), **d)
                break
    elif not np.all(np.isfinite(a2)):
        ctx.fail(f"C14/member/{algo}/{kind}/{branch}/not_finite", "action is not finite", **d)

    # ---- masks ------------------------------------------------------------------------------------------------
    if M is not None:
        for r in range(rows):
            if not row_mask_ok(act_space, a2[r], M[r]):
                ctx.fail(f"C14/mask/{algo}/{kind}/{branch}", f"row {r}: action {np.asarray(a2[r]).tolist()} uses an entry the mask "
                         f"{M[r].tolist()} forbids", row=r, action=np.asarray(a2[r]).tolist(), mask=M[r].tolist(), **d)
                break
        ctx.label("masked-call")

    # ---- greedy = arg-max over the allowed actions of the network's own scores --------------------------------------
    greedy = (algo in EPS_ALGOS and x == 0) or (algo == "Rainbow" and not x) or (bandit and spec.get("hp", {}).get("gamma", 1.0) <= 1e-6)
    if greedy:
        okq, q = _guard(ctx, algo, "scores", lambda: _scores_single(agent, algo, obs), **d)
        if okq and np.all(np.isfinite(q)):
            q = q.reshape(rows, -1)
            Mg = M if M is not None else np.ones((rows, q.shape[1]), dtype=np.int8)
            bad = [r for r in range(rows) if not row_greedy_ok(q[r], a2[r], Mg[r])]
            if bad and algo in ("DQN", "DDQN"):
                # the policy branch is taken where uniform_() > epsilon: a draw of exactly 0.0 (2^-24) goes the other way
                ag.seed_all(call["s"] + 7919)
                again = np.asarray(_act_single(agent, algo, obs, x, mask_arg)).reshape(rows)
                bad = [r for r in bad if not row_greedy_ok(q[r], again[r], Mg[r])]
            if bad:
                r = bad[0]
                ctx.fail(f"C14/greedy/{algo}/{'masked' if M is not None else 'unmasked'}",
                         f"row {r}: with exploration off action {np.asarray(a2[r]).tolist()} is not an arg-max of the network's scores "
                         f"{np.round(q[r], 5).tolist()} over the allowed actions {Mg[r].tolist()}", row=r, scores=q[r].tolist(),
                         mask=Mg[r].tolist(), action=np.asarray(a2[r]).tolist(), **d)
            if np.any([np.sum(np.isclose(q[r], np.max(q[r][Mg[r] != 0]), rtol=0, atol=TOL) & (Mg[r] != 0)) > 1 for r in range(rows)]):
                ctx.label("greedy-tie")
            ctx.label("greedy-checked")
        elif okq:
            ctx.label("scores-not-finite")

    # ---- bookkeeping ------------------------------------------------------------------------------------------
    masked_some = M is not None and bool((M == 0).any())
    if masked_some or (is_box and not default_bounds(act_space)):
        ctx.nontrivial({"a": algo, "k": spec["act"], "m": None if M is None else bits_of(M),
                        "x": x, "f": form})


def run_single(case, ctx):
    spec = case["spec"]
    algo = spec["algo"]
    try:
        agent = build(spec)
        obs_space, act_space = spaces_of(spec)
        shape_weights([agent.actor], case["wseed"], case["wnoise"], case["wf"])
    except Exception as e:  # noqa: BLE001 - constructing the learner is not what C14 promises
        ctx.label(f"setup-failed:{type(e).__name__}")
        return
    ctx.label(f"algo={algo}")
    ctx.label(f"act={spec['act']['k']}")
    ctx.label(f"obs={spec.get('obs', 'context')}")
    ctx.label(f"wf={case['wf']}")
    details = {"spec": spec, "wf": case["wf"]}
    for call in case["calls"]:
        one_single_call(ctx, agent, spec, obs_space, act_space, call, details)


# ---------------------------------------------------------------------------------------------------------------
# multi-agent learners
# ---------------------------------------------------------------------------------------------------------------

def _eda_value(space, v, rng_seed):
    """an environment-defined action (element of the space) from a drawn integer"""
    if isinstance(space, spaces.Discrete):
        return int(v) % int(space.n)
    u = np.random.default_rng([int(rng_seed), int(v)]).integers(0, 5, size=space.shape) / 4.0  # bounds included
    return (space.low + (space.high - space.low) * u).astype(np.float32)


def _scores_multi(agent, obs, ids, seed):
    """actor outputs per agent exactly as get_action(training=False) computes them (the discrete actors end in a
    Gumbel-softmax that draws from torch's generator: same seed, same order of calls)"""
    ag.seed_all(seed)
    out = {}
    with torch.no_grad():
        prep = agent.preprocess_observation(obs)
        for a, actor in zip(ids, agent.actors):
            actor.eval()
            out[a] = actor(prep[a]).detach().double().numpy()
            actor.train()
    return out


def one_multi_call(ctx, agent, spec, obs_l, act_l, ids, call, details):
    algo = spec["algo"]
    kind = spec["act"]["k"]
    space = act_l[0]
    x = bool(call["x"])
    form, E = call["f"], int(call["E"])
    V = int(spec.get("hp", {}).get("vect_noise_dim", 1))
    if algo in MA_OFF and x:  # exploration noise has vect_noise_dim rows
        if V > 1:
            form, E = "batch", V
        elif form == "batch":
            form = "batch1"
    rows = E if form == "batch" else 1
    single = form == "single"
    branch = "train" if x else "eval"
    rng = np.random.default_rng(call["s"])
    obs = {a: sp.sample_obs(s, None if single else rows, rng) for a, s in zip(ids, obs_l)}
    is_box = isinstance(space, spaces.Box)
    w = mask_width(space)

    # ---- infos: per-agent masks and environment-defined actions ------------------------------------------------------
    masks = {a: None for a in ids}
    m_in = call.get("m")
    mask_allowed = w > 0 and (algo == "IPPO" or kind == "discrete")
    if m_in is not None and mask_allowed:
        for j, a in enumerate(ids):
            bits = m_in[j % len(m_in)]
            if bits is not None:
                masks[a] = np.stack([mask_row(space, bits[i % len(bits)]) for i in range(rows)])
        if algo == "IPPO":  # "if action masks are provided for any agents [of a group], they must be provided for all"
            groups = {}
            for a in ids:
                groups.setdefault(a.rsplit("_", 1)[0], []).append(a)
            for members in groups.values():
                have = [a for a in members if masks[a] is not None]
                if have and len(have) < len(members):
                    for a in members:
                        if masks[a] is None:
                            masks[a] = np.roll(masks[have[0]], 1, axis=0).copy()
    eda = {a: [None] * rows for a in ids}
    e_in = call.get("e")
    eda_on = e_in is not None and kind in ("discrete", *BOX_KINDS)
    if eda_on:
        for j, a in enumerate(ids):
            ea = e_in[j % len(e_in)]
            if ea is not None:
                eda[a] = [None if ea[i % len(ea)] is None else _eda_value(space, ea[i % len(ea)], call["s"] + j) for i in range(rows)]
    infos = None
    if any(m is not None for m in masks.values()) or eda_on:
        infos = {}
        order = list(reversed(ids)) if call.get("o") else list(ids)
        for a in order:
            info = {}
            if masks[a] is not None:
                info["action_mask"] = _mask_arg(masks[a], "int8", single)
                if call.get("ml"):  # nested Python lists (the form the test-suite uses)
                    info["action_mask"] = info["action_mask"].tolist()
            if eda_on:
                if single:
                    v = eda[a][0]
                    if v is None:
                        info["env_defined_actions"] = None
                    elif is_box:
                        info["env_defined_actions"] = np.asarray(v, dtype=np.float32)
                    else:  # "a numpy array with a single value"; the test-suite also passes a plain int
                        info["env_defined_actions"] = int(v) if call["s"] % 2 else np.array([int(v)])
                else:  # vectorised: one row per environment, NaN where the environment defines nothing
                    shape = (rows, *space.shape) if is_box else (rows,)
                    arr = np.full(shape, np.nan, dtype=np.float64)
                    for i, v in enumerate(eda[a]):
                        if v is not None:
                            arr[i] = v
                    info["env_defined_actions"] = arr
            infos[a] = info
    reordered = bool(call.get("o")) and infos is not None
    # with the agents listed in another order than agent_ids, what depends on infos (masks, env-defined actions) gets one class
    # of its own per learner and clause
    d = dict(details, call=call, form=form, rows=rows, branch=branch,
             masks={a: None if m is None else m.tolist() for a, m in masks.items()},
             env_defined={a: [None if v is None else np.asarray(v).tolist() for v in vs] for a, vs in eda.items()} if eda_on else None)

    def act():
        if algo == "IPPO":
            agent.set_training_mode(x)
            return agent.get_action(obs, infos=infos)[0] if infos is not None else agent.get_action(obs)[0]
        cont, disc = agent.get_action(obs, training=x, infos=infos) if infos is not None else agent.get_action(obs, training=x)
        return disc if agent.discrete_actions else cont

    ag.seed_all(call["s"])
    ok, out = _guard(ctx, algo, "infos_key_order" if reordered else branch, act, **d)
    ctx.label("calls")
    ctx.label(f"form={form}")
    ctx.label(f"{algo}|{branch}")
    if infos is not None and any(m is not None for m in masks.values()):
        ctx.label(f"{algo}|masked")
    if eda_on:
        ctx.label(f"{algo}|env_defined")
    if reordered:
        ctx.label("infos-order-reversed")
    if not ok:
        return
    if not isinstance(out, dict) or set(out) != set(ids):
        ctx.fail(f"C14/batch_shape/{algo}/{branch}/agents", f"actions returned for {sorted(out) if isinstance(out, dict) else type(out).__name__}, "
                 f"the learner has agents {ids}", **d)
        return

    scores = None
    if algo in MA_OFF and kind == "discrete" and not x:
        oks, scores = _guard(ctx, algo, "scores", lambda: _scores_multi(agent, obs, ids, call["s"]), **d)
        if not oks:
            scores = None

    promised_bounds = not (algo == "IPPO" and is_box and x)
    for a in ids:
        da = dict(d, agent=a)
        a2 = check_shape(ctx, f"C14/batch_shape/{algo}/{branch}", np.asarray(out[a]), rows, space, True, da)
        if a2 is None:
            continue
        for r in range(rows):
            env_v = eda[a][r]
            if env_v is not None:
                # ---- environment-defined actions are returned verbatim ---------------------------------------------------
                want = np.asarray(env_v)
                if not np.array_equal(np.asarray(a2[r], dtype=np.float64), want.astype(np.float64)):
                    ctx.fail(f"C14/env_defined/{algo}/infos_key_order" if reordered else
                             f"C14/env_defined/{algo}/{'box' if is_box else 'discrete'}/{'single' if single else 'vectorised'}",
                             f"agent {a} row {r}: environment-defined action {want.tolist()} came back as {np.asarray(a2[r]).tolist()}",
                             row=r, **da)
                    break
                continue
            own = act_l[ids.index(a)]  # the acting agent's OWN space (agents of different groups may have different bounds)
            if promised_bounds and not row_member(own, a2[r]):
                sig = (f"C14/bounds/{algo}/{branch}/{bounds_class(own)}" + ("/agents_with_different_bounds" if own is not space else "")
                       if is_box else f"C14/member/{algo}/{kind}/{branch}")
                ctx.fail(sig, f"agent {a} row {r} = {np.asarray(a2[r]).tolist()} is not an element of {own}", row=r,
                         action=np.asarray(a2[r]).tolist(), low=getattr(own, "low", np.zeros(0)).tolist(),
                         high=getattr(own, "high", np.zeros(0)).tolist(), **da)
                break
            if not promised_bounds and not np.all(np.isfinite(a2[r])):
                ctx.fail(f"C14/member/{algo}/{kind}/{branch}/not_finite", "action is not finite", **da)
                break
            if masks[a] is not None and not row_mask_ok(space, a2[r], masks[a][r]):
                ctx.fail(f"C14/mask/{algo}/infos_key_order" if reordered else f"C14/mask/{algo}/{kind}/{branch}", f"agent {a} row {r}: action {np.asarray(a2[r]).tolist()} uses an entry "
                         f"the mask {masks[a][r].tolist()} forbids", row=r, action=np.asarray(a2[r]).tolist(), mask=masks[a][r].tolist(), **da)
                break
            if scores is not None and np.all(np.isfinite(scores[a])):
                q = scores[a].reshape(rows, -1)
                mg = masks[a][r] if masks[a] is not None else np.ones(q.shape[1], dtype=np.int8)
                if not row_greedy_ok(q[r], a2[r], mg):
                    ctx.fail(f"C14/greedy/{algo}/{'masked' if masks[a] is not None else 'unmasked'}",
                             f"agent {a} row {r}: with exploration off action {np.asarray(a2[r]).tolist()} is not an arg-max of the actor's "
                             f"output {np.round(q[r], 5).tolist()} over the allowed actions {np.asarray(mg).tolist()}", row=r,
                             scores=q[r].tolist(), mask=np.asarray(mg).tolist(), **da)
                    break
                ctx.label("greedy-checked")
    masked_some = any(m is not None and (m == 0).any() for m in masks.values())
    if masked_some or (is_box and not default_bounds(space)) :
        ctx.nontrivial({"a": algo, "k": spec["act"], "x": x, "f": form, "o": reordered,
                        "m": {a: None if m is None else bits_of(m) for a, m in masks.items()},
                        "e": {a: [v is not None for v in vs] for a, vs in eda.items()} if eda_on else None})


def run_multi(case, ctx):
    spec = case["spec"]
    algo = spec["algo"]
    try:
        agent = build(spec)
        obs_l, act_l = spaces_of(spec)
        ids = ag.AGENT_IDS[: len(obs_l)]
        shape_weights(list(agent.actors), case["wseed"], case["wnoise"], case["wf"])
    except Exception as e:  # noqa: BLE001
        ctx.label(f"setup-failed:{type(e).__name__}")
        return
    ctx.label(f"algo={algo}")
    ctx.label(f"act={spec['act']['k']}")
    ctx.label(f"obs={spec.get('obs')}")
    ctx.label(f"wf={case['wf']}")
    details = {"spec": spec, "wf": case["wf"]}
    for call in case["calls"]:
        one_multi_call(ctx, agent, spec, obs_l, act_l, ids, call, details)


# ---------------------------------------------------------------------------------------------------------------
# exhaustive masks for small action counts
# ---------------------------------------------------------------------------------------------------------------

def _env_seed():
    return int(os.environ.get("VERIF_SEED", "1") or "1")


SMALL_ACTS = ([{"k": "discrete", "n": n} for n in (2, 3, 4, 5)]
              + [{"k": "multidiscrete", "nvec": [2, 2]}, {"k": "multidiscrete", "nvec": [2, 3]}, {"k": "multidiscrete", "nvec": [5]}]
              + [{"k": "multibinary", "n": n} for n in (1, 3, 5)])
EXH_WF = [0.0, 1.0, 30.0]


def exhaustive_cells():
    cells = []
    for algo in DISCRETE_Q + BANDITS + MA_OFF:
        for act in SMALL_ACTS[:4]:
            cells.append((algo, act))
    for algo in ("PPO", "IPPO"):
        for act in SMALL_ACTS:
            cells.append((algo, act))
    return cells


def mask_grid(tier):
    """every (learner, small action space, weight scaling); ALL masks of the space are presented inside the case"""
    obs_fams = ["vector", "dict", "discrete", "image", "tuple", "multibinary"]
    for i, (algo, act) in enumerate(exhaustive_cells()):
        for j, wf in enumerate(EXH_WF):
            rng = np.random.default_rng([_env_seed(), i, j])
            spec = {"algo": algo, "act": act, "obs": obs_fams[int(rng.integers(0, len(obs_fams)))], "obsv": int(rng.integers(0, 3)),
                    "seed": int(rng.integers(0, 1000))}
            if algo in MULTI_ALGOS:
                spec["n_agents"] = 2 + (i + j) % 2
                if spec["obs"] in ("tuple", "multibinary") and algo in MA_OFF:  # MADDPG / MATD3 cannot be constructed on these
                    spec["obs"] = "vector"
            if algo in BANDITS:
                spec.pop("obs")
                spec["hp"] = {"gamma": [1.0, 1e-9][int(rng.integers(0, 2))]}
            yield {"spec": spec, "wf": wf, "wseed": int(rng.integers(0, 1000)), "wnoise": 0.3, "seed": int(rng.integers(0, 10 ** 6))}


def run_exhaustive(case, ctx):
    spec = case["spec"]
    algo = spec["algo"]
    multi = algo in MULTI_ALGOS
    try:
        agent = build(spec)
        obs_space, act_space = spaces_of(spec)
        shape_weights(list(agent.actors) if multi else [agent.actor], case["wseed"], case["wnoise"], case["wf"])
    except Exception as e:  # noqa: BLE001
        ctx.label(f"setup-failed:{type(e).__name__}")
        return
    space = act_space[0] if multi else act_space
    bits = all_mask_bits(space)
    ctx.label(f"algo={algo}")
    ctx.label(f"act={spec['act']['k']}")
    ctx.label(f"obs={spec.get('obs', 'context')}")
    ctx.label(f"wf={case['wf']}")
    ctx.label(f"exhaustive-masks:{spec['act']['k']}:{mask_width(space)}", len(bits))
    details = {"spec": spec, "wf": case["wf"]}
    if algo in EPS_ALGOS:
        settings = [0.0, 1.0]
    elif algo in BANDITS:
        settings = [0]
    else:
        settings = [False, True]
    s0 = int(case["seed"])
    if not multi:
        for xi, x in enumerate(settings):
            if algo not in BANDITS:  # all masks as the rows of one vectorised observation
                call = {"f": "batch", "B": len(bits), "x": x, "m": bits, "mf": "int8", "s": s0 + xi}
                one_single_call(ctx, agent, spec, obs_space, act_space, call, details)
                if algo == "PPO":  # stochastic policy: more draws
                    for k in range(2):
                        one_single_call(ctx, agent, spec, obs_space, act_space, dict(call, s=s0 + 100 + 10 * k + xi), details)
            for bi, b in enumerate(bits):  # every mask with a single un-batched observation / a batch of one
                call = {"f": "single" if (bi + xi) % 2 == 0 else "batch1", "B": 1, "x": x, "m": [b], "mf": "int8", "s": s0 + 1000 + 2 * bi + xi}
                one_single_call(ctx, agent, spec, obs_space, act_space, call, details)
        return
    ids = ag.AGENT_IDS[: len(obs_space)]
    n = len(bits)
    ml = 1 if algo == "IPPO" else 0  # IPPO: masks as nested lists (numpy masks: see the one extra call below)
    for xi, x in enumerate(settings):
        if not (algo in MA_OFF and x):  # exploration noise of MADDPG / MATD3 has vect_noise_dim (= 1 here) rows
            per_agent = [[bits[(i + 7 * j) % n] for i in range(n)] for j in range(len(ids))]
            call = {"f": "batch", "E": n, "x": x, "m": per_agent, "e": None, "o": 0, "ml": ml, "s": s0 + xi}
            one_multi_call(ctx, agent, spec, obs_space, act_space, ids, call, details)
            if ml:  # the same once with the numpy arrays an environment delivers
                one_multi_call(ctx, agent, spec, obs_space, act_space, ids, dict(call, ml=0), details)
        for bi, b in enumerate(bits):
            per_agent = [[bits[(bi + 3 * j) % n]] for j in range(len(ids))]
            call = {"f": "single" if (bi + xi) % 2 == 0 else "batch1", "E": 1, "x": x, "m": per_agent, "e": None, "o": 0, "ml": ml,
                    "s": s0 + 1000 + 2 * bi + xi}
            one_multi_call(ctx, agent, spec, obs_space, act_space, ids, call, details)


# ---------------------------------------------------------------------------------------------------------------
# strategies
# ---------------------------------------------------------------------------------------------------------------

SINGLE_FAMS = ["vector", "image", "dict", "tuple", "discrete", "multidiscrete", "multibinary", "sequence"]
MA_OFF_FAMS = ["vector", "image", "dict", "discrete", "multidiscrete"]  # Tuple: MADDPG / MATD3 cannot be constructed
IPPO_FAMS = ["vector", "image", "dict", "tuple", "discrete", "multidiscrete", "multibinary"]
WFS = [0.0, 0.3, 1.0, 1.0, 3.0, 30.0]


@st.composite
def act_strategy(draw, kinds):
    k = draw(st.sampled_from(kinds))
    if k == "discrete":
        return {"k": k, "n": draw(st.sampled_from([2, 3, 4, 6, 7, 9]))}
    if k == "multidiscrete":
        return {"k": k, "nvec": draw(st.lists(st.integers(1, 4), min_size=1, max_size=4))}
    if k == "multibinary":
        return {"k": k, "n": draw(st.integers(1, 7))}
    if k == "box":
        return {"k": k, "v": draw(st.integers(0, 2))}
    return {"k": k}


def _bits(width):
    return st.integers(0, 2 ** width - 1)


@st.composite
def single_strategy(draw, tier):
    algo = draw(st.sampled_from(engine.stratum(SINGLE_ALGOS)))
    spec = {"algo": algo, "obsv": draw(st.integers(0, 2)), "seed": draw(st.integers(0, 999))}
    if algo in BANDITS:
        spec["act"] = draw(act_strategy(["discrete"]))
        spec["hp"] = {"gamma": draw(st.sampled_from([1.0, 1e-9]))}
    else:
        spec["obs"] = draw(st.sampled_from(SINGLE_FAMS))
        if algo in DISCRETE_Q:
            spec["act"] = draw(act_strategy(["discrete"]))
        elif algo in CONT:
            spec["act"] = draw(act_strategy(BOX_KINDS))
            spec["hp"] = {"vect_noise_dim": draw(st.sampled_from([1, 1, 2, 4])), "O_U_noise": draw(st.booleans()),
                          "expl_noise": draw(st.sampled_from([0.0, 0.1, 1.0, 5.0])), "mean_noise": draw(st.sampled_from([0.0, 0.0, 0.5]))}
            if draw(st.booleans()):
                spec["out_act"] = draw(st.sampled_from([None, None, "ReLU", "ReLU", "Sigmoid", "Softsign"]))
        else:
            spec["act"] = draw(act_strategy(["discrete", "multidiscrete", "multibinary"] + BOX_KINDS))
    width = mask_width(make_act(spec["act"]))
    if algo in EPS_ALGOS:
        xs = st.one_of(st.sampled_from([0.0, 1.0]), st.floats(0.0, 1.0, allow_nan=False, width=32))
    elif algo in BANDITS:
        xs = st.just(0)
    else:
        xs = st.booleans()
    mforms = ["int8", "int64"] + (["object"] if algo in OBJECT_MASK_OK else [])

    @st.composite
    def call(draw):
        c = {"f": draw(st.sampled_from(["single", "batch1", "batch"])), "B": draw(st.integers(2, 4)), "x": draw(xs),
             "s": draw(st.integers(0, 10 ** 6))}
        if width and draw(st.integers(0, 3)) > 0:
            c["m"] = draw(st.lists(_bits(width), min_size=1, max_size=4))
            c["mf"] = draw(st.sampled_from(mforms))
        else:
            c["m"] = None
        return c

    return {"spec": spec, "wf": draw(st.sampled_from(WFS)), "wseed": draw(st.integers(0, 999)), "wnoise": draw(st.sampled_from([0.1, 0.3])),
            "calls": draw(st.lists(call(), min_size=20, max_size=28))}


@st.composite
def multi_strategy(draw, tier):
    algo = draw(st.sampled_from(engine.stratum(MULTI_ALGOS)))
    n_agents = draw(st.sampled_from([2, 3, 3]))
    spec = {"algo": algo, "obsv": draw(st.integers(0, 2)), "seed": draw(st.integers(0, 999)), "n_agents": n_agents,
            "other_bounds": draw(st.booleans())}
    if algo == "IPPO":
        spec["obs"] = draw(st.sampled_from(IPPO_FAMS))
        spec["act"] = draw(act_strategy(["discrete", "discrete", "multidiscrete", "multibinary"] + BOX_KINDS))
    else:
        spec["obs"] = draw(st.sampled_from(MA_OFF_FAMS))
        spec["act"] = draw(act_strategy(["discrete", "discrete"] + BOX_KINDS))
        spec["hp"] = {"vect_noise_dim": draw(st.sampled_from([1, 1, 2, 3])), "O_U_noise": draw(st.booleans()),
                      "expl_noise": draw(st.sampled_from([0.0, 0.1, 1.0, 5.0])), "mean_noise": draw(st.sampled_from([0.0, 0.0, 0.5]))}
    space = make_act(spec["act"])
    width = mask_width(space)
    can_eda = spec["act"]["k"] in ("discrete", *BOX_KINDS)

    @st.composite
    def call(draw):
        c = {"f": draw(st.sampled_from(["single", "batch1", "batch"])), "E": draw(st.integers(2, 4)), "x": draw(st.booleans()),
             "s": draw(st.integers(0, 10 ** 6)), "m": None, "e": None, "o": 0, "ml": draw(st.integers(0, 1))}
        if width and draw(st.integers(0, 3)) > 0:
            c["m"] = [draw(st.one_of(st.none(), st.lists(_bits(width), min_size=1, max_size=4))) if draw(st.integers(0, 4)) == 0
                      else draw(st.lists(_bits(width), min_size=1, max_size=4)) for _ in range(n_agents)]
        if can_eda and draw(st.integers(0, 2)) == 0:
            c["e"] = [draw(st.one_of(st.none(), st.lists(st.one_of(st.none(), st.integers(0, 50)), min_size=1, max_size=4)))
                      for _ in range(n_agents)]
        if (c["m"] is not None or c["e"] is not None) and draw(st.integers(0, 5)) == 0:
            c["o"] = 1
        return c

    return {"spec": spec, "wf": draw(st.sampled_from(WFS)), "wseed": draw(st.integers(0, 999)), "wnoise": draw(st.sampled_from([0.1, 0.3])),
            "calls": draw(st.lists(call(), min_size=20, max_size=26))}


# ---------------------------------------------------------------------------------------------------------------
# coverage grids: every (learner, action-space kind) cell is visited in every run, the rest of the case derives from VERIF_SEED
# ---------------------------------------------------------------------------------------------------------------

def _np_act(kind, rng):
    if kind == "discrete":
        return {"k": kind, "n": [2, 3, 4, 6, 7, 9][int(rng.integers(0, 6))]}
    if kind == "multidiscrete":
        return {"k": kind, "nvec": [int(v) for v in rng.integers(1, 5, size=int(rng.integers(1, 5)))]}
    if kind == "multibinary":
        return {"k": kind, "n": int(rng.integers(1, 8))}
    if kind == "box":
        return {"k": kind, "v": int(rng.integers(0, 3))}
    return {"k": kind}


def _np_noise_hp(rng, vs):
    return {"vect_noise_dim": int(vs[int(rng.integers(0, len(vs)))]), "O_U_noise": bool(rng.integers(0, 2)),
            "expl_noise": [0.1, 1.0, 5.0][int(rng.integers(0, 3))], "mean_noise": [0.0, 0.0, 0.5][int(rng.integers(0, 3))]}


def _np_bits(rng, width):
    return [int(rng.integers(0, 2 ** width)) for _ in range(int(rng.integers(1, 5)))]


def _np_x(algo, rng):
    if algo in EPS_ALGOS:
        return [0.0, 1.0, float(np.float32(rng.uniform(0, 1)))][int(rng.integers(0, 3))]
    if algo in BANDITS:
        return 0
    return bool(rng.integers(0, 2))


def single_grid(tier):
    reps = 1 if tier == "quick" else 4
    cells = ([(a, "discrete") for a in DISCRETE_Q + BANDITS] + [(a, k) for a in CONT for k in BOX_KINDS]
             + [("PPO", k) for k in ["discrete", "multidiscrete", "multibinary"] + BOX_KINDS])
    for rep in range(reps):
        for i, (algo, kind) in enumerate(cells):
            rng = np.random.default_rng([_env_seed(), 14, rep, i])
            spec = {"algo": algo, "obsv": int(rng.integers(0, 3)), "seed": int(rng.integers(0, 1000)), "act": _np_act(kind, rng)}
            if algo in BANDITS:
                spec["hp"] = {"gamma": [1.0, 1e-9][int(rng.integers(0, 2))]}
            else:
                spec["obs"] = SINGLE_FAMS[int(rng.integers(0, len(SINGLE_FAMS)))]
            if algo in CONT:
                spec["hp"] = _np_noise_hp(rng, [1, 1, 2, 4])
            width = mask_width(make_act(spec["act"]))
            calls = []
            for _ in range(24):
                c = {"f": ["single", "batch1", "batch"][int(rng.integers(0, 3))], "B": int(rng.integers(2, 5)), "x": _np_x(algo, rng),
                     "s": int(rng.integers(0, 10 ** 6)), "m": None}
                if width and rng.integers(0, 4) > 0:
                    c["m"] = _np_bits(rng, width)
                    c["mf"] = ["int8", "int64", "object"][int(rng.integers(0, 3 if algo in OBJECT_MASK_OK else 2))]
                calls.append(c)
            yield {"spec": spec, "wf": [1.0, 30.0, 0.3, 3.0][(i + rep + _env_seed()) % 4], "wseed": int(rng.integers(0, 1000)), "wnoise": 0.3,
                   "calls": calls}


def multi_grid(tier):
    reps = 1 if tier == "quick" else 4
    cells = ([(a, k) for a in MA_OFF for k in ["discrete"] + BOX_KINDS]
             + [("IPPO", k) for k in ["discrete", "multidiscrete", "multibinary"] + BOX_KINDS])
    for rep in range(reps):
        for i, (algo, kind) in enumerate(cells):
            rng = np.random.default_rng([_env_seed(), 15, rep, i])
            n_agents = int(rng.integers(2, 4))
            spec = {"algo": algo, "obsv": int(rng.integers(0, 3)), "seed": int(rng.integers(0, 1000)), "n_agents": n_agents,
                    "act": _np_act(kind, rng), "other_bounds": n_agents == 3 and kind in BOX_KINDS}
            fams = IPPO_FAMS if algo == "IPPO" else MA_OFF_FAMS
            spec["obs"] = fams[int(rng.integers(0, len(fams)))]
            if algo in MA_OFF:
                spec["hp"] = _np_noise_hp(rng, [1, 1, 2, 3])
            width = mask_width(make_act(spec["act"]))
            can_eda = kind in ("discrete", *BOX_KINDS)
            calls = []
            for _ in range(22):
                c = {"f": ["single", "batch1", "batch"][int(rng.integers(0, 3))], "E": int(rng.integers(2, 5)), "x": bool(rng.integers(0, 2)),
                     "s": int(rng.integers(0, 10 ** 6)), "m": None, "e": None, "o": 0, "ml": int(rng.integers(0, 2))}
                if width and rng.integers(0, 4) > 0:
                    c["m"] = [None if rng.integers(0, 8) == 0 else _np_bits(rng, width) for _ in range(n_agents)]
                if can_eda and rng.integers(0, 3) == 0:
                    c["e"] = [None if rng.integers(0, 3) == 0 else
                              [None if rng.integers(0, 2) == 0 else int(rng.integers(0, 51)) for _ in range(int(rng.integers(1, 5)))]
                              for _ in range(n_agents)]
                if (c["m"] is not None or c["e"] is not None) and rng.integers(0, 6) == 0:
                    c["o"] = 1
                calls.append(c)
            yield {"spec": spec, "wf": [1.0, 30.0, 0.3, 3.0][(i + rep + _env_seed()) % 4], "wseed": int(rng.integers(0, 1000)), "wnoise": 0.3,
                   "calls": calls}


_WANTED = ([f"algo={a}" for a in SINGLE_ALGOS + MULTI_ALGOS]
           + [f"act={k}" for k in ["discrete", "multidiscrete", "multibinary"] + BOX_KINDS]
           + [f"{a}|{b}" for a in EPS_ALGOS for b in ("greedy", "explore", "mixed")]
           + [f"{a}|{b}" for a in ["Rainbow", "DDPG", "TD3", "PPO", "MADDPG", "MATD3", "IPPO"] for b in ("train", "eval")]
           + [f"{a}|masked" for a in DISCRETE_Q + BANDITS + ["PPO", "IPPO"] + MA_OFF]
           + [f"{a}|env_defined" for a in MULTI_ALGOS]
           + ["form=single", "form=batch1", "form=batch", "form=context", "greedy-checked", "greedy-tie", "infos-order-reversed",
              "wf=0.0", "wf=30.0"])

PROPERTY = Property(
    id="C14",
    level="exploration",
    rule=("one case = one built learner (algorithm x action space x observation family x weights: seeded noise, every parameter "
          "scaled by 0 / 0.3 / 1 / 3 / 30) serving many get_action calls; a call draws the batch form (single un-batched / batch "
          "of one / batch), the exploration setting (epsilon 0 / drawn / 1; training flag and noise settings; training / "
          "evaluation mode), a legal-action mask per row (per agent and environment for multi-agent learners) and "
          "environment-defined actions; (mask_exhaustive) for action spaces with <= 5 mask entries every mask with >= 1 legal "
          "action per component is presented, batched and single. Counted per CALL: non-trivial = the mask forbids >= 1 "
          "action or the Box has non-default (asymmetric / per-dimension) bounds; distinct by (learner, action space, masks, "
          "exploration setting, batch form, env-defined pattern)"),
    obligations=[
        Obligation("mask_exhaustive", run_exhaustive, enumerate=mask_grid,
                   shards={"quick": 4, "thorough": 8},
                   exhaustive_note=("all legal-action masks with >= 1 legal entry per component for Discrete(2..5), MultiDiscrete([2,2] / "
                                    "[2,3] / [5]) and MultiBinary(1 / 3 / 5) (3+7+15+31, 9, 21, 31, 2, 8, 32 masks), for each learner "
                                    "that takes masks (DQN, DDQN, Rainbow, CQN, NeuralUCB, NeuralTS, MADDPG, MATD3 on Discrete; PPO, "
                                    "IPPO on all three kinds) x weight scaling {0, 1, 30} x every exploration setting, batched and single")),
        Obligation("single_agent", run_single, strategy=single_strategy, enumerate=single_grid,
                   examples={"quick": 90, "thorough": 500}, shards={"quick": 5, "thorough": 16},
                   shrink_budget={"quick": 30, "thorough": 300}),
        Obligation("multi_agent", run_multi, strategy=multi_strategy, enumerate=multi_grid,
                   examples={"quick": 80, "thorough": 400}, shards={"quick": 3, "thorough": 16},
                   shrink_budget={"quick": 30, "thorough": 300}),
    ],
    assumptions=[
        "a single un-batched observation is a batch of one (the training loops take action[0]); bandits return one arm index",
        "multi-agent learners may return Discrete actions as one column per environment, shape (envs, 1)",
        "masks are numeric arrays (1 = legal) shaped like the network output: (n,) for a single observation, (rows, n) for a batch, or "
        "the object array of per-environment masks a gymnasium vector env delivers (only where get_action stacks it); they are "
        "passed only to learners whose get_action has an action_mask / infos parameter; MultiBinary: a masked bit is never set",
        "DDPG / TD3 / MADDPG / MATD3 in training mode are called with as many observation rows as vect_noise_dim",
        "IPPO: masks are given to all agents of a homogeneous group or to none; vectorised env-defined actions are NaN-padded "
        "arrays for every agent, un-vectorised ones None / a single value (Discrete) / a vector (Box); whole rows only",
        "PPO / IPPO Box actions are checked against the bounds in evaluation mode only; squash_output is left out (known C16 cluster)",
        "greedy clause: DQN / DDQN / CQN at epsilon = 0, Rainbow with training=False, MADDPG / MATD3 Discrete with training=False "
        "(Gumbel-softmax re-drawn with the same seed), bandits with gamma = 1e-9; any action whose score is within 1e-5 "
        "(relative to max(1, |best|)) of the best allowed score is accepted",
    ],
    wanted_labels=_WANTED,
)
