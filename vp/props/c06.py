"""C06 - hyperparameter mutation stays in its configured range and takes effect."""
from __future__ import annotations

import numpy as np
from hypothesis import strategies as st

from vp.core import engine
from vp.core.engine import Obligation, Property
from vp.gen import agents as ag
from vp.gen import histories as hist
from vp.obs import tensors as T

HP_BY_ALGO = {
    "DQN": {"float": ["lr"], "int": ["batch_size", "learn_step"]},
    "DDQN": {"float": ["lr"], "int": ["batch_size", "learn_step"]},
    "Rainbow": {"float": ["lr"], "int": ["batch_size", "learn_step"]},
    "CQN": {"float": ["lr"], "int": ["batch_size", "learn_step"]},
    "DDPG": {"float": ["lr_actor", "lr_critic"], "int": ["batch_size", "learn_step"]},
    "TD3": {"float": ["lr_actor", "lr_critic"], "int": ["batch_size", "learn_step"]},
    "PPO": {"float": ["lr"], "int": ["batch_size", "learn_step"]},
    "NeuralUCB": {"float": ["lr"], "int": ["batch_size", "learn_step"]},
    "NeuralTS": {"float": ["lr"], "int": ["batch_size", "learn_step"]},
    "MADDPG": {"float": ["lr_actor", "lr_critic"], "int": ["batch_size", "learn_step"]},
    "MATD3": {"float": ["lr_actor", "lr_critic"], "int": ["batch_size", "learn_step"]},
    "IPPO": {"float": ["lr"], "int": ["batch_size", "learn_step"]},
}


def _expected(old, p):
    lo, hi, shrink, grow, kind = p
    cast = int if kind == "int" else float
    out = []
    for f in (shrink, grow):
        v = old * f
        v = min(max(v, lo), hi)
        out.append(cast(v))
    return out


def _lrs_of(agent, lr_name):
    """every param-group lr of every optimizer the agent registered with this lr name"""
    vals = []
    for cfg in agent.registry.optimizers:
        if cfg.lr != lr_name:
            continue
        w = getattr(agent, cfg.name)
        opts = w.optimizer if isinstance(w.optimizer, (list, tuple)) else [w.optimizer]
        for o in opts:
            for g in o.param_groups:
                vals.append((cfg.name, g["lr"]))
    return vals


def run_hp(case, ctx):
    algo = case["algo"]
    params = case["params"]  # name -> [min, max, shrink, grow, kind]
    n = case["pop"]
    spec0 = {"algo": algo, "obs": "vector", "seed": case["seed"]}
    try:
        shared_cfg = ag.make_hp_config(algo, params) if case["shared"] else None
        pop = []
        for i in range(n):
            init = {}
            for name, p in params.items():
                frac = case["init"][i][name]
                v = p[0] + frac * (p[1] - p[0])
                init[name] = int(round(v)) if p[4] == "int" else float(v)
                init[name] = min(max(init[name], int(np.ceil(p[0])) if p[4] == "int" else p[0]), int(np.floor(p[1])) if p[4] == "int" else p[1])
            spec = dict(spec0, hp=init, index=i)
            cfg = shared_cfg if case["shared"] else ag.make_hp_config(algo, params)
            pop.append(ag.build(spec, hp_config=cfg))
    except Exception as e:
        ctx.label(f"setup-failed:{type(e).__name__}")
        return
    labels = set()
    try:
        receivers = [a.clone() for a in pop]  # agents as they were built, before any mutation
    except Exception as e:  # noqa: BLE001
        ctx.label(f"setup-failed:{type(e).__name__}")
        return
    for rnd, op in enumerate(case["rounds"]):
        if op[0] == "select" and len(pop) > 1:
            from agilerl.hpo.tournament import TournamentSelection

            ag.seed_all(op[1])
            for j, a in enumerate(pop):
                a.fitness.append(float((op[1] * 7 + j * 3) % 5))
            try:
                _, pop = TournamentSelection(2, True, len(pop), 1).select(pop)
            except Exception as e:
                ctx.label(f"setup-failed:{type(e).__name__}")
                return
            labels.add("selection-between-rounds")
            continue
        if op[0] == "learn":
            # the agents train between generations: optimizers carry state (moments, step counters) when the next mutation comes
            try:
                for j, a in enumerate(pop):
                    ag.seed_all(op[1] + j)
                    ag.learn_once(a, spec0, op[1] + j)
                labels.add("learn-step-before-a-mutation")
            except Exception as e:  # noqa: BLE001 - learning is C02's / C20's promise
                ctx.label(f"learn-raised:{type(e).__name__}")
            continue
        if op[0] == "handover":
            # the mutated population is handed over through checkpoints INTO agents that were built before the mutation (what
            # tournament_selection_and_mutation does for the other processes of a distributed run, and what resuming does)
            import os
            import shutil
            import tempfile

            d = tempfile.mkdtemp(prefix="vpc06_")
            try:
                new = []
                for j, a in enumerate(pop):
                    path = os.path.join(d, f"a{j}.pt")
                    a.save_checkpoint(path)
                    b = receivers[j % len(receivers)].clone(index=a.index)
                    b.load_checkpoint(path)
                    new.append(b)
                pop = new
                labels.add("handed-over-through-checkpoints")
            except Exception as e:  # noqa: BLE001 - saving / loading is C07's promise
                ctx.label(f"handover-raised:{type(e).__name__}")
                continue
            finally:
                shutil.rmtree(d, ignore_errors=True)
            _check_lrs(ctx, pop, algo, rnd, where="/after_checkpoint_handover")
            continue
        if op[0] == "clone":
            try:
                pop = [a.clone() for a in pop]
            except Exception as e:
                ctx.label(f"setup-failed:{type(e).__name__}")
                return
            continue
        old = [{name: getattr(a, name) for name in params} for a in pop]
        mut = hist.make_mutations("rl_hp", op[1])
        with ctx.promised(f"C06/mutation_call/{algo}"):
            pop = mut.mutation(pop)
        ctx.check(len(pop) == len(old), "C06/population_size_changed", "", got=len(pop), want=len(old))
        for i, a in enumerate(pop):
            changed = [name for name in params if getattr(a, name) != old[i][name]]
            named = a.mut
            if named not in params:
                ctx.fail("C06/mut_label_not_a_configured_hp", "agent.mut does not name a configured hyper-parameter after an "
                         "rl_hp mutation", mut=str(named), configured=sorted(params))
                continue
            ctx.check(all(c == named for c in changed), "C06/more_than_one_or_unnamed_hp_changed",
                      "a hyper-parameter other than the one agent.mut names changed", changed=changed, mut=named, agent=i)
            p = params[named]
            new = getattr(a, named)
            exp = _expected(old[i][named], p)
            ok = any(abs(new - e) <= 1e-12 * max(1.0, abs(e)) for e in exp)
            if not ok:
                # discriminate: explained by ANOTHER agent's (or a stale cached) value?
                stale = False
                for j in range(len(old)):
                    for src in (old[j][named],):
                        if j != i and any(abs(new - e) <= 1e-12 * max(1.0, abs(e)) for e in _expected(src, p)):
                            stale = True
                sig = ("C06/value_not_own_old_times_factor/" + ("explained_by_other_agents_value" if stale else "unexplained")
                       + ("/shared_config" if case["shared"] else "/own_config"))
                ctx.fail(sig, "new value is not the agent's own current value times shrink or grow factor (clipped, cast)",
                         agent=i, name=named, old=old[i][named], new=new, expected=exp, params=p, round=rnd,
                         olds_of_all=[o[named] for o in old])
            ctx.check(p[0] <= new <= p[1], "C06/out_of_range", "mutated value left [min, max]", name=named, new=new, params=p)
            want_t = int if p[4] == "int" else float
            ctx.check(type(new) is want_t, "C06/wrong_number_type", "mutated value does not have the configured dtype",
                      name=named, type=type(new).__name__, want=want_t.__name__)
            if named in a.get_lr_names():
                labels.add("lr-mutated")
                for optname, lr in _lrs_of(a, named):
                    if lr != new:
                        first = [c.name for c in a.registry.optimizers if c.lr == named][0]
                        which = "first" if optname == first else "later"
                        ctx.fail(f"C06/optimizer_group_keeps_stale_lr/{which}_optimizer_with_that_lr_name",
                                 "an optimizer registered with the mutated learning-rate name still steps with the old value",
                                 algo=algo, optimizer=optname, lr=lr, new=new, name=named)
            if new in (p[0], p[1]) or (p[4] == "int" and new in (int(p[0]), int(p[1]))):
                labels.add("clipped")
            if p[4] == "int":
                labels.add("int-param")
            if (p[4] == "int") != (isinstance(p[0], int) and isinstance(p[1], int)):
                labels.add("bound-type-differs-from-dtype")
        _check_lrs(ctx, pop, algo, rnd)
    for l in labels:
        ctx.label(l)
    ctx.label(f"algo={algo}")
    fl = [nm for nm, p in params.items() if p[4] == "float"]
    if len(fl) > 1 and all(params[nm][:2] == params[fl[0]][:2] and all(r[nm] == r[fl[0]] for r in case["init"]) for nm in fl[1:]):
        ctx.label("equal-learning-rates")
    ctx.label("shared-config" if case["shared"] else "own-config")
    if ("clipped" in labels or "int-param" in labels) and "lr-mutated" in labels:
        ctx.nontrivial({"a": algo, "p": params, "s": case["shared"], "n": n, "r": [o[0] for o in case["rounds"]]})


def _check_lrs(ctx, pop, algo, rnd, where=""):
    if True:
        # independent of what the registry says: every optimizer the agent steps must run with the agent's own current
        # learning rate for the networks it updates (critic optimizers <-> lr_critic, actor optimizers <-> lr_actor, else lr)
        for i, a in enumerate(pop):
            two = hasattr(a, "lr_actor") and hasattr(a, "lr_critic")
            for oname, opt in T.flat_optimizers(a).items():
                attr = ("lr_critic" if "critic" in oname else "lr_actor") if two else "lr"
                want = getattr(a, attr)
                bad = [g["lr"] for g in opt.param_groups if g["lr"] != want]
                if bad:
                    ctx.fail(f"C06/optimizer_steps_with_other_lr_than_agent/{attr}{where}",
                             "an optimizer steps with a learning rate that is not the agent's current value for the networks it updates",
                             algo=algo, agent=i, optimizer=oname, group_lr=bad[0], agent_value=want, attr=attr, mut=str(a.mut), round=rnd)
                    break


@st.composite
def hp_strategy(draw, tier):
    algo = draw(st.sampled_from(engine.stratum(list(HP_BY_ALGO))))
    names = HP_BY_ALGO[algo]
    params = {}
    for nm in names["float"]:
        lo = draw(st.sampled_from([1e-5, 1e-4, 1e-3]))
        hi = lo * draw(st.sampled_from([1.5, 10.0, 1000.0]))
        if draw(st.integers(0, 4)) == 0:
            hi = 1  # a bound written as a Python int for a float hyper-parameter (min/max are only annotated as float)
        params[nm] = [lo, hi, draw(st.sampled_from([0.5, 0.8, 0.95])), draw(st.sampled_from([1.05, 1.2, 2.0])), "float"]
    for nm in draw(st.lists(st.sampled_from(names["int"]), unique=True, max_size=2)):
        lo = draw(st.integers(1, 4)) if nm != "batch_size" else draw(st.integers(2, 4))
        hi = lo + draw(st.integers(1, 12))
        # bounds of an int hyper-parameter written as floats (e.g. max=1e2) are legal too
        lo = float(lo) if draw(st.integers(0, 3)) == 0 else lo
        hi = float(hi) if draw(st.integers(0, 3)) == 0 else hi
        params[nm] = [lo, hi, draw(st.sampled_from([0.5, 0.8])), draw(st.sampled_from([1.2, 2.0])), "int"]
    n = draw(st.integers(1, 4))
    init = [{nm: draw(st.floats(0, 1)) for nm in params} for _ in range(n)]
    if len(names["float"]) > 1 and draw(st.integers(0, 2)) == 0:
        # numerically EQUAL actor and critic learning rates (same range, same start) - distinct float objects, equal values
        first = names["float"][0]
        for nm in names["float"][1:]:
            params[nm] = list(params[first])
            for row in init:
                row[nm] = row[first]
    rounds = draw(st.lists(st.one_of(st.tuples(st.just("mutate"), st.integers(0, 999)),
                                     st.tuples(st.just("mutate"), st.integers(0, 999)),
                                     st.tuples(st.just("mutate"), st.integers(0, 999)),
                                     st.tuples(st.just("select"), st.integers(0, 999)),
                                     st.tuples(st.just("learn"), st.integers(0, 999)),
                                     st.tuples(st.just("handover")),
                                     st.tuples(st.just("clone"))),
                           min_size=1, max_size=5 if tier == "quick" else 10))
    return {"algo": algo, "params": params, "pop": n, "init": init, "shared": draw(st.booleans()),
            "seed": draw(st.integers(0, 999)), "rounds": [list(r) for r in rounds]}


PROPERTY = Property(
    id="C06",
    level="exploration",
    rule=("algorithm x configured hyper-parameters (float learning rates and int batch_size/learn_step with drawn min<max, shrink, grow) x "
          "population of 1-4 built from ONE shared HyperparameterConfig (as create_population does) or one each x 1-10 rounds of "
          "Mutations(rl_hp=1) interleaved with tournament selection / cloning; per agent per round the new value must be the agent's OWN old "
          "value times a factor, clipped, cast, inside range, and carried by every optimizer group registered with that lr name. "
          "rounds are mutations interleaved with tournament selection, clone and LEARN steps (optimizers carry state when the next "
          "mutation comes); non-trivial = some round clipped or an int parameter was mutated, and a learning rate was mutated; "
          "distinct by configuration"),
    obligations=[
        Obligation("rl_hp_mutation", run_hp, strategy=hp_strategy,
                   examples={"quick": 40, "thorough": 500}, shards={"quick": 12, "thorough": 16},
                   shrink_budget={"quick": 80, "thorough": 400}),
    ],
    assumptions=["populations share one HyperparameterConfig object exactly as agilerl.utils.utils.create_population passes it",
                 "relative tolerance 1e-12 on the expected value"],
    wanted_labels=["clipped", "int-param", "lr-mutated", "shared-config", "own-config", "selection-between-rounds", "bound-type-differs-from-dtype",
                   "learn-step-before-a-mutation"],
)
