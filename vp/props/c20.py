"""C20 - training loops compose end to end and keep step / population accounting right."""
from __future__ import annotations

import numpy as np
import torch
from gymnasium import spaces
from hypothesis import strategies as st

from vp.core.engine import Obligation, Property
from vp.gen import agents as ag
from vp.gen import spaces as sp

OFF_ALGOS = ["DQN", "DDQN", "Rainbow", "CQN", "DDPG", "TD3"]
OBS = ["vector", "image", "dict", "tuple", "discrete", "multidiscrete", "multibinary"]


def run_sampler_feeds_learn(case, ctx):
    """What the sampler returns from a real buffer filled by the real Transition class is accepted by learn()."""
    from agilerl.components.data import Transition
    from agilerl.components.replay_buffer import MultiStepReplayBuffer, PrioritizedReplayBuffer, ReplayBuffer
    from agilerl.components.sampler import Sampler

    algo, fam = case["algo"], case["obs"]
    spec = {"algo": algo, "obs": fam, "obsv": case["obsv"], "actv": case["actv"], "seed": case["seed"],
            "act": case.get("act", "box")}
    mem_kind = case["memory"] if algo == "Rainbow" else "uniform"
    site = f"C20/sampler_feeds_learn/obs={fam}/envs={'1' if case['envs'] == 1 else 'n'}"
    with ctx.promised(site + "/build"):
        agent = ag.build(spec)
    obs_space, act_space = ag.spaces_for(spec)
    rng = np.random.default_rng(case["seed"])
    E = case["envs"]
    cap = 16
    per = mem_kind in ("per", "per+nstep")
    nstep = mem_kind in ("nstep", "per+nstep")
    memory = PrioritizedReplayBuffer(cap, alpha=0.6) if per else ReplayBuffer(cap)
    n_mem = MultiStepReplayBuffer(cap, n_step=agent.n_step, gamma=agent.gamma) if nstep else None
    sampler = Sampler(memory=memory)
    n_sampler = Sampler(memory=n_mem) if nstep else None
    steps = case["steps"]
    obs = sp.sample_obs(obs_space, E if E > 1 else None, rng)
    with ctx.promised(site + "/fill_buffer"):
        for t in range(steps):
            nobs = sp.sample_obs(obs_space, E if E > 1 else None, rng)
            if isinstance(act_space, spaces.Discrete):
                action = rng.integers(0, act_space.n, size=(E,)) if E > 1 else int(rng.integers(0, act_space.n))
            else:
                action = sp.sample_action(act_space, E if E > 1 else None, rng)
            reward = rng.normal(size=(E,)).astype(np.float32) if E > 1 else float(rng.normal())
            done = rng.integers(0, 2, size=(E,)).astype(bool) if E > 1 else bool(rng.integers(0, 2))
            tr = Transition(obs=obs, action=action, reward=reward, next_obs=nobs, done=done)
            if E == 1:
                tr = tr.unsqueeze(0)
            td = tr.to_tensordict()
            td.batch_size = [E]
            if n_mem is not None:
                one = n_mem.add(td)
                if one is not None:
                    memory.add(one)
            else:
                memory.add(td)
            obs = nobs
    if len(memory) < agent.batch_size:
        return
    before = {k: v.detach().clone() for k, v in agent.actor.state_dict().items()} if hasattr(agent, "actor") else {}
    with ctx.promised(site + f"/memory={mem_kind}/learn"):
        for _ in range(case["learns"]):
            if per:
                exp = sampler.sample(agent.batch_size, 0.4)
                n_exp = n_sampler.sample(exp["idxs"]) if nstep else None
                loss, idxs, prios = agent.learn(exp, n_experiences=n_exp, per=True)
                memory.update_priorities(idxs, prios)
            elif nstep:
                exp = sampler.sample(agent.batch_size, return_idx=True)
                n_exp = n_sampler.sample(exp["idxs"])
                loss, *_ = agent.learn(exp, n_experiences=n_exp)
            else:
                exp = sampler.sample(agent.batch_size)
                loss = agent.learn(exp)
    ctx.label(f"algo={algo}")
    ctx.label(f"obs={fam}")
    ctx.label(f"memory={mem_kind}")
    ctx.nontrivial({"a": algo, "o": fam, "ov": case["obsv"], "m": mem_kind, "E": E})


@st.composite
def sfl_strategy(draw, tier):
    algo = draw(st.sampled_from(OFF_ALGOS))
    return {"algo": algo, "obs": draw(st.sampled_from(OBS)), "obsv": draw(st.integers(0, 2)), "actv": draw(st.integers(0, 2)),
            "act": draw(st.sampled_from(["box", "box_asym", "box_perdim"])),
            "seed": draw(st.integers(0, 10_000)), "envs": draw(st.integers(1, 3)), "steps": draw(st.integers(6, 12)),
            "learns": draw(st.integers(1, 3)),
            "memory": draw(st.sampled_from(["uniform", "per", "nstep", "per+nstep"]))}


PROPERTY = Property(
    id="C20",
    level="exploration",
    rule=("(algorithm x observation family x memory kind x env count) configurations; a real buffer is filled through Transition as the "
          "loops do, the Sampler's output is handed to learn(); non-trivial = learn was reached; distinct by configuration"),
    obligations=[
        Obligation("sampler_feeds_learn", run_sampler_feeds_learn, strategy=sfl_strategy,
                   examples={"quick": 60, "thorough": 600}, shards={"quick": 8, "thorough": 16}),
    ],
    assumptions=[],
)
