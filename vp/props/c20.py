"""C20 - training loops compose end to end and keep step / population accounting right."""
from __future__ import annotations

import numpy as np
import torch
from gymnasium import spaces
from hypothesis import strategies as st

from vp.core import engine
from vp.core.engine import Obligation, Property
from vp.gen import agents as ag
from vp.gen import spaces as sp

OFF_ALGOS = ["DQN", "DDQN", "Rainbow", "CQN", "DDPG", "TD3"]
OBS = ["vector", "image", "dict", "tuple", "discrete", "multidiscrete", "multibinary"]


def run_sampler_feeds_learn(case, ctx):
    """What the sampler returns from a real buffer filled by the real Transition class is accepted by learn()."""
    from agilerl.components.data import Transition
    from agilerl.components.replay_buffer import MultiStepReplayBuffer, PrioritizedReplayBuffer, ReplayBuffer
    from agilerl.components.sampler import Sampler

    algo, fam = case["algo"], case["obs"]
    spec = {"algo": algo, "obs": fam, "obsv": case["obsv"], "actv": case["actv"], "seed": case["seed"],
            "act": case.get("act", "box")}
    mem_kind = case["memory"] if algo == "Rainbow" else "uniform"
    site = f"C20/sampler_feeds_learn/obs={fam}/envs={'1' if case['envs'] == 1 else 'n'}"
    with ctx.promised(site + "/build"):
        agent = ag.build(spec)
    obs_space, act_space = ag.spaces_for(spec)
    rng = np.random.default_rng(case["seed"])
    E = case["envs"]
    cap = 16
    per = mem_kind in ("per", "per+nstep")
    nstep = mem_kind in ("nstep", "per+nstep")
    memory = PrioritizedReplayBuffer(cap, alpha=0.6) if per else ReplayBuffer(cap)
    n_mem = MultiStepReplayBuffer(cap, n_step=agent.n_step, gamma=agent.gamma) if nstep else None
    sampler = Sampler(memory=memory)
    n_sampler = Sampler(memory=n_mem) if nstep else None
    steps = case["steps"]
    obs = sp.sample_obs(obs_space, E if E > 1 else None, rng)
    with ctx.promised(site + "/fill_buffer"):
        for t in range(steps):
            nobs = sp.sample_obs(obs_space, E if E > 1 else None, rng)
            if isinstance(act_space, spaces.Discrete):
                action = rng.integers(0, act_space.n, size=(E,)) if E > 1 else int(rng.integers(0, act_space.n))
            else:
                action = sp.sample_action(act_space, E if E > 1 else None, rng)
            reward = rng.normal(size=(E,)).astype(np.float32) if E > 1 else float(rng.normal())
            done = rng.integers(0, 2, size=(E,)).astype(bool) if E > 1 else bool(rng.integers(0, 2))
            tr = Transition(obs=obs, action=action, reward=reward, next_obs=nobs, done=done)
            if E == 1:
                tr = tr.unsqueeze(0)
            td = tr.to_tensordict()
            td.batch_size = [E]
            if n_mem is not None:
                one = n_mem.add(td)
                if one is not None:
                    memory.add(one)
            else:
                memory.add(td)
            obs = nobs
    if len(memory) < agent.batch_size:
        return
    before = {k: v.detach().clone() for k, v in agent.actor.state_dict().items()} if hasattr(agent, "actor") else {}
    with ctx.promised(site + f"/memory={mem_kind}/learn"):
        for _ in range(case["learns"]):
            if per:
                exp = sampler.sample(agent.batch_size, 0.4)
                n_exp = n_sampler.sample(exp["idxs"]) if nstep else None
                loss, idxs, prios = agent.learn(exp, n_experiences=n_exp, per=True)
                memory.update_priorities(idxs, prios)
            elif nstep:
                exp = sampler.sample(agent.batch_size, return_idx=True)
                n_exp = n_sampler.sample(exp["idxs"])
                loss, *_ = agent.learn(exp, n_experiences=n_exp)
            else:
                exp = sampler.sample(agent.batch_size)
                loss = agent.learn(exp)
    ctx.label(f"algo={algo}")
    ctx.label(f"obs={fam}")
    ctx.label(f"memory={mem_kind}")
    ctx.nontrivial({"a": algo, "o": fam, "ov": case["obsv"], "m": mem_kind, "E": E})


@st.composite
def sfl_strategy(draw, tier):
    algo = draw(st.sampled_from(engine.stratum(OFF_ALGOS)))
    return {"algo": algo, "obs": draw(st.sampled_from(OBS)), "obsv": draw(st.integers(0, 2)), "actv": draw(st.integers(0, 2)),
            "act": draw(st.sampled_from(["box", "box_asym", "box_perdim"])),
            "seed": draw(st.integers(0, 10_000)), "envs": draw(st.integers(1, 3)), "steps": draw(st.integers(6, 12)),
            "learns": draw(st.integers(1, 3)),
            "memory": draw(st.sampled_from(["uniform", "per", "nstep", "per+nstep"]))}


def run_loops(case, ctx):
    from vp.core import isolate
    from vp.gen.pzoracle import Findings
    from vp.props import c20_loops

    res = isolate.run_isolated(c20_loops.loop_child, case, 300.0)
    if res["status"] == "ok":
        Findings.replay(res["result"], ctx)
        return
    kind = "single_env" if case["envs"] == 0 else "vector_env"
    if res["status"] == "timeout":
        ctx.fail(f"C20/{case['loop']}/completes/{kind}/hang", "training function did not return within 300 s",
                 progress=res.get("progress", [])[-3:])
    else:
        ctx.fail(f"C20/{case['loop']}/completes/{kind}/process_died", "the process running the training function died",
                 info=str(res.get("result"))[:500])


def _batch_size(draw, loop, evo):
    """usually a small batch; for the loops that learn from a growing buffer also one LARGER than an agent's steps per generation
    (the shared buffer reaches a full batch only during a later agent's turn / a later generation)"""
    if loop in ("bandits", "off_policy", "ma_off") and draw(st.integers(0, 2)) == 0:
        return draw(st.integers(evo + 1, 2 * evo))
    return draw(st.integers(2, 4))


@st.composite
def loops_strategy(draw, tier):
    from vp.props.c20_loops import LOOP_ALGOS

    loop = draw(st.sampled_from(["off_policy", "off_policy", "on_policy", "offline", "bandits", "ma_off", "ma_on"]))
    algo = draw(st.sampled_from(engine.stratum(LOOP_ALGOS[loop])))
    rainbow_memories = loop == "off_policy" and "Rainbow" in LOOP_ALGOS[loop] and draw(st.integers(0, 3)) == 0
    if rainbow_memories:
        algo = "Rainbow"  # the only learner with n-step / prioritised memories: make sure every memory kind meets every env count
    if loop == "bandits":
        obs, envs = "vector", 0
    elif loop in ("ma_off", "ma_on"):
        obs = draw(st.sampled_from(["vector", "vector", "image", "discrete"]))
        envs = draw(st.sampled_from([0, 1, 2, 3]))
    else:
        obs = draw(st.sampled_from(["vector", "vector", "image", "dict", "discrete"] if loop != "offline" else ["vector", "image", "discrete"]))
        envs = draw(st.sampled_from([0, 1, 2, 3, 4]))
    evo = draw(st.integers(6, 20))
    gens = draw(st.integers(2, 4))
    pop = draw(st.integers(1, 3))
    max_steps = evo * gens - draw(st.integers(0, 3))
    if loop == "ma_on":
        max_steps *= pop
    act = "box"
    if algo == "PPO":
        act = draw(st.sampled_from(["discrete", "box", "multidiscrete"]))
    elif algo in ("MADDPG", "MATD3", "IPPO"):
        act = draw(st.sampled_from(["discrete", "box"]))
    elif algo in ("DDPG", "TD3"):
        act = draw(st.sampled_from(["box", "box_asym"]))
    if loop in ("offline", "off_policy", "on_policy") and obs in ("vector", "discrete") and draw(st.integers(0, 5)) == 0:
        # a run that ENDS BY EARLY STOPPING: the target is exceeded from the start, the loops stop once 100 step entries exist,
        # i.e. after generation 99 - tiny generations keep this cheap
        evo = max(envs, 1) * draw(st.integers(1, 2))
        case = {"loop": loop, "algo": algo, "obs": obs, "obsv": draw(st.integers(0, 2)), "actv": draw(st.integers(0, 2)), "act": act,
                "envs": envs, "pop": draw(st.integers(1, 2)), "seed": draw(st.integers(0, 999)), "ep_len": draw(st.integers(2, 5)),
                "evo_steps": evo, "max_steps": evo * 130, "eval_steps": 2, "batch_size": 2, "learn_step": max(envs, 1),
                "learning_delay": 0, "memory": "uniform", "evolve": False, "mut_probs": [1, 0, 0, 0, 0], "checkpoint": None,
                "target": -1e9, "resume": 0, "early_stop": True}
        return case
    return {"loop": loop, "algo": algo, "obs": obs, "obsv": draw(st.integers(0, 2)), "actv": draw(st.integers(0, 2)), "act": act,
            "envs": envs, "pop": pop, "seed": draw(st.integers(0, 999)), "ep_len": draw(st.integers(2, 7)),
            "evo_steps": evo, "max_steps": max_steps, "eval_steps": draw(st.sampled_from([None, 3, 5])),
            "batch_size": _batch_size(draw, loop, evo), "learn_step": draw(st.sampled_from([1, 2, 3, 4, 8])),
            "learning_delay": draw(st.sampled_from([0, 0, 3])), "memory": draw(st.sampled_from(["nstep", "nstep", "per+nstep", "per"] if rainbow_memories else ["uniform", "per", "nstep", "per+nstep"])),
            "evolve": draw(st.booleans()), "mut_probs": draw(st.sampled_from([[1, 0, 0, 0, 0], [0.2, 0.2, 0.2, 0.2, 0.2], [0, 0.5, 0, 0, 0.5], [0, 0, 1, 0, 0]])),
            "checkpoint": draw(st.sampled_from([None, None, 5])), "target": draw(st.sampled_from([None, None, None, 1e9])),
            "resume": draw(st.sampled_from([0, 0, 1, 1, 2])) if loop in ("on_policy", "ma_on") else 0}


PROPERTY = Property(
    id="C20",
    level="exploration",
    rule=("(algorithm x observation family x memory kind x env count) configurations; a real buffer is filled through Transition as the "
          "loops do, the Sampler's output is handed to learn(); non-trivial = learn was reached; distinct by configuration"),
    obligations=[
        Obligation("sampler_feeds_learn", run_sampler_feeds_learn, strategy=sfl_strategy,
                   examples={"quick": 40, "thorough": 600}, shards={"quick": 4, "thorough": 16}),
        Obligation("training_loops", run_loops, strategy=loops_strategy,
                   examples={"quick": 12, "thorough": 150}, shards={"quick": 12, "thorough": 16},
                   shrink_budget={"quick": 40, "thorough": 200}),
    ],
    assumptions=[],
)
