"""C18 - Rainbow's distributional target conserves probability mass and expected value; priorities are the cross-entropy.

Two obligations over the same generated domain (atoms 2-51, v_min < v_max, gamma, n-step exponent, batch = agent.batch_size
1-8, rewards inside / outside / exactly on atoms, drawn done flags, perturbed target weights, per on/off, combined on/off):

(a) ``projection_conserves`` - the projected target distribution is recovered BLACK-BOX: for the duration of one call of
    ``agent._dqn_loss`` the online network's ``forward`` is wrapped so that in ``log=True`` mode it returns ``-e_k`` (k-th unit
    vector for every action; every other call is delegated to the real forward).  The element-wise loss
    ``-(proj * log_p).sum(1)`` then IS ``proj[:, k]``; N probes give the whole projection.  On it the statement's two
    conservation laws are asserted row by row: total mass == mass of the source distribution and mean == mean of
    ``clip(r + gamma^n (1-d) z, v_min, v_max)`` under the source distribution, where the source is the TARGET network's
    distribution (``actor_target(next_obs, q=False)``) of the greedy next action.  The statement does not say which network
    is greedy, so both the online (what double-Q Rainbow does) and the target selection are accepted.
    ``_dqn_loss`` is an internal name: if it is gone, renamed, takes other arguments or no longer reads the online
    log-distribution through ``actor(..., log=True)`` (probe never triggered) the batch is only LABELLED
    (``probe-unavailable`` / ``probe-ineffective``) - obligation (b) alone decides then.

(b) ``priorities_cross_entropy`` - differential through the public ``learn(batch, n_experiences, per)``: with ``per=True`` the
    returned priorities minus ``prior_eps`` equal the cross-entropy between the canonical categorical projection (own float64
    numpy implementation, ``reference_projection``) and the online log-distribution of the action taken (1-step, n-step with
    gamma**n_step, combined = sum of both); with ``per=False`` the returned scalar is the mean of that per-sample
    cross-entropy (this is the loss the network "trains towards").  The online distribution is read through the public
    forward (``actor(obs, q=False, log=True)``; it must be normalised over the atoms - checked on its own).

Crashes: the statement quantifies over every support range / reward / batch of the domain, so an exception escaping ``_dqn_loss``
or ``learn`` there means no projection / no priority exists for that batch: violation ``C18/crash/<ExcType>@<file:function>`` (the
case goes on with its next batch when that class is excluded - the loss raises before the optimiser step).

Tolerances: conservation 1e-5 (relative to max(1,|v_min|,|v_max|) x mass), cross-entropy 1e-4 relative, each widened by a few units
of the float32 index error of ``b = (t_z - v_min) / delta_z`` (``index_error_unit``: eps32 (N-1) max(1, max|v| / (v_max - v_min))) -
without it a narrow support far from zero (v_min=9.66, v_max=9.71) gave a false alarm of 1.1e-5 on the mean.

Noisy layers: NoisyLinear keeps its noise in buffers that only change in ``reset_noise()``, which ``learn`` calls AFTER the
optimiser step; all reference forward passes are made right before ``learn`` on the same (train-mode) networks and therefore
see exactly the weights+noise ``learn`` uses.

Domain notes (harness preconditions, not findings): Rainbow's loss indexes ``range(self.batch_size)``, so batches have
exactly ``agent.batch_size`` rows; reward/done are (B,1) as the real buffer emits them (batches come from
``vp.gen.agents.offpolicy_batch``; only the reward VALUES are overwritten with the drawn ones); n-step batches share obs and
action with the 1-step batch like the real n-step buffer does.
"""
from __future__ import annotations

import inspect
import math
import traceback

import numpy as np
import torch
from hypothesis import strategies as st

from vp.core.engine import Obligation, Property, site_of
from vp.gen import agents as ag
from vp.obs import tensors as T

NICE_SUPPORTS = [[-2.0, 2.0], [0.0, 200.0], [-10.0, 10.0], [0.0, 1.0], [-1.0, 1.0], [-5.0, 0.0], [1.0, 3.0], [-100.0, 100.0]]
GAMMAS = [0.0, 0.5, 0.9, 0.99, 1.0]
PRIOR_EPS = [1e-6, 1e-3, 0.05, 0.5]
REWARD_KINDS = ["atom", "shift", "in", "lo", "hi", "edge", "free"]
EPS32 = float(np.finfo(np.float32).eps)
DQN_LOSS_ARGS = ["states", "actions", "rewards", "next_states", "dones", "gamma"]


# ---------------------------------------------------------------------------
# building blocks
# ---------------------------------------------------------------------------

def make_spec(case):
    return {"algo": "Rainbow", "obs": case["obs"], "obsv": case["obsv"], "actv": case["actv"], "seed": case["seed"],
            "hp": {"batch_size": case["B"], "num_atoms": case["atoms"], "v_min": case["vmin"], "v_max": case["vmax"],
                   "gamma": case["gamma"], "n_step": case["n_step"], "prior_eps": case["prior_eps"],
                   "combined_reward": bool(case["combined"]), "lr": 1e-2, "tau": 0.3}}


def perturb_target(agent, seed, scale):
    """online != target, so that 'target from the online net' is observable (weights only, not noise buffers)"""
    g = torch.Generator().manual_seed(seed)
    weights = set(dict(agent.actor.named_parameters()).keys())
    with torch.no_grad():
        for k, t in T.all_tensors(agent.actor_target).items():
            if k in weights and t.is_floating_point():
                t.add_(torch.randn(t.shape, generator=g) * scale)


def sharpen_online(agent, scale):
    """'every online network weights': a trained Rainbow network is peaked (some atoms far below probability 1e-3), a freshly
    initialised one is almost uniform. Scale the output layers of the online head so that both kinds occur."""
    with torch.no_grad():
        for k, p in agent.actor.named_parameters():
            if "linear_layer_output" in k and (k.endswith("weight_mu") or k.endswith("bias_mu") or k.endswith(".weight") or k.endswith(".bias")):
                p.mul_(scale)


def target_differs(agent):
    a, b = T.all_tensors(agent.actor), T.all_tensors(agent.actor_target)
    for k, p in agent.actor.named_parameters():
        if k in b and b[k].shape == p.shape and not torch.equal(b[k], a[k]):
            return True
    return False


def rewards_for(rows, case):
    """drawn reward classes -> values (float32, as stored in a buffer)"""
    n, vmin, vmax = case["atoms"], case["vmin"], case["vmax"]
    dz = (vmax - vmin) / (n - 1)
    width = max(vmax - vmin, 1.0)
    support32 = torch.linspace(vmin, vmax, n)  # the values the agent's support holds
    out = []
    for row in rows:
        k, a, f = row["k"], row["a"], row["f"]
        if k == "atom":
            r = float(support32[a % n])
        elif k == "shift":
            r = ((a % (2 * n + 1)) - n) * dz
        elif k == "in":
            r = vmin + f * (vmax - vmin)
        elif k == "lo":
            r = vmin - (0.05 + 2 * f) * width
        elif k == "hi":
            r = vmax + (0.05 + 2 * f) * width
        elif k == "edge":
            r = vmin if a % 2 == 0 else vmax
        else:
            r = (f - 0.5) * 4.0
        out.append(r)
    return torch.tensor(out, dtype=torch.float32).reshape(-1, 1)


def make_batch(agent, spec, case, bd, which):
    """which = 'one' | 'n' : the 1-step batch or the n-step batch (same obs/action rows, own reward/next_obs/done)"""
    B = case["B"]
    rows = (bd["rows"] if which == "one" else bd["nrows"])
    rows = (rows + [{"k": "free", "a": 0, "f": 0.5, "d": 0}] * B)[:B]
    dones = [int(r["d"]) for r in rows]
    seed = bd["bseed"] * 2 + (0 if which == "one" else 1)
    b = ag.offpolicy_batch(agent, spec, B, seed, dones=dones)
    if which == "n":
        one = ag.offpolicy_batch(agent, spec, B, bd["bseed"] * 2, dones=dones)
        b["obs"], b["action"] = one["obs"], one["action"]
    b["reward"] = rewards_for(rows, case).reshape(b["reward"].shape)
    return b, rows


def _clone(x):
    return x.clone() if hasattr(x, "clone") else x


def source_candidates(agent, batch):
    """[(name, next_action (B,), source distribution (B,N) float64)] - target network's distribution of the greedy next action"""
    B = batch.batch_size[0]
    with torch.no_grad():
        nobs = agent.preprocess_observation(_clone(batch["next_obs"]))
        dist_t = agent.actor_target(nobs, q=False).double()
        q_online = agent.actor(nobs)
        q_target = agent.actor_target(nobs)
    out = []
    seen = []
    for name, q in (("online", q_online), ("target", q_target)):
        na = q.argmax(1)
        if any(torch.equal(na, s) for s in seen):
            continue
        seen.append(na)
        out.append((name, na.tolist(), dist_t[torch.arange(B), na].numpy()))
    return out


def reference_projection(src, r, d, g, vmin, vmax, n):
    """canonical categorical projection (Bellemare et al. 2017, alg. 1), float64.  src (B,N), r,d (B,) -> (B,N)"""
    z = np.linspace(vmin, vmax, n)
    dz = (vmax - vmin) / (n - 1)
    B = src.shape[0]
    m = np.zeros((B, n))
    for i in range(B):
        tz = np.clip(r[i] + g * (1.0 - d[i]) * z, vmin, vmax)
        b = np.clip((tz - vmin) / dz, 0.0, n - 1.0)
        lo = np.floor(b).astype(int)
        hi = np.ceil(b).astype(int)
        for j in range(n):
            if lo[j] == hi[j]:
                m[i, lo[j]] += src[i, j]
            else:
                m[i, lo[j]] += src[i, j] * (hi[j] - b[j])
                m[i, hi[j]] += src[i, j] * (b[j] - lo[j])
    return m


def clipped_mean(src, r, d, g, vmin, vmax, n):
    z = np.linspace(vmin, vmax, n)
    tz = np.clip(r[:, None] + g * (1.0 - d[:, None]) * z[None, :], vmin, vmax)
    return (src * tz).sum(1)


def batch_labels(ctx, rows, r, d, g, case, prefix=""):
    n, vmin, vmax = case["atoms"], case["vmin"], case["vmax"]
    z = np.linspace(vmin, vmax, n)
    dz = (vmax - vmin) / (n - 1)
    raw = r[:, None] + g * (1.0 - d[:, None]) * z[None, :]
    feats = set()
    if (raw < vmin - 1e-9).any():
        feats.add("clipped-low")
    if (raw > vmax + 1e-9).any():
        feats.add("clipped-high")
    b = (np.clip(raw, vmin, vmax) - vmin) / dz
    inside = (raw >= vmin - 1e-9) & (raw <= vmax + 1e-9)
    if (inside & (np.abs(b - np.rint(b)) < 1e-6)).any():
        feats.add("on-atom")
    if d.any():
        feats.add("done")
    if d.any() and not d.all():
        feats.add("mixed-done")
    for i in range(len(rows)):
        if d[i] and np.abs(b[i] - np.rint(b[i])).max() < 1e-6 and inside[i].all():
            feats.add("done-on-atom")  # whole mass lands on one atom
    for f in feats:
        ctx.label(prefix + f)
    return feats


def index_error_unit(case):
    """float32 index arithmetic: b = (t_z - v_min) / delta_z is computed from float32 values of magnitude up to max(|v_min|,|v_max|),
    so it carries an absolute error of about eps32 * (N-1) * max(1, scale / (v_max - v_min)) (cancellation when the support is narrow
    and far from zero).  The two weights of an atom still add up to exactly one, but each is off by that much, and an atom clipped
    to v_max may spill that much past the last atom.  Tolerances are 'stated tolerance + a few of these units'."""
    n, vmin, vmax = case["atoms"], case["vmin"], case["vmax"]
    scale = max(1.0, abs(vmin), abs(vmax))
    return EPS32 * (n - 1) * max(1.0, scale / (vmax - vmin))


def _bucket(err):
    """error magnitude class for the label histogram (how far the observed errors stay below the tolerance)"""
    if not err > 0:
        return "=0"
    return f"<=1e{max(-9, min(2, math.ceil(math.log10(err))))}"


def _call(ctx, fn, **details):
    """The statement promises a projection / a priority for every batch of the domain: an exception is a violation of the
    class 'exception type @ innermost agilerl frame'.  Unlike ctx.promised the case goes on with the next batch when the class
    is excluded (the agent is untouched: the loss raised before the optimiser step)."""
    try:
        return True, fn()
    except Exception as e:  # noqa: BLE001 - promised call, see docstring
        sig = f"C18/crash/{type(e).__name__}@{site_of(e)}"
        ctx.fail(sig, f"{type(e).__name__}: {str(e)[:200]}", traceback="".join(traceback.format_exception(e))[-1200:], **details)
        return False, None


# ---------------------------------------------------------------------------
# (a) the projection, recovered through _dqn_loss
# ---------------------------------------------------------------------------

def probe_available(agent):
    fn = getattr(agent, "_dqn_loss", None)
    if not callable(fn):
        return False
    try:
        return list(inspect.signature(fn).parameters) == DQN_LOSS_ARGS
    except (TypeError, ValueError):
        return False


def probe_projection(agent, batch, gamma):
    """(B,N) projected target distribution, or None if the probe never reached the loss (internal structure changed)."""
    actor = agent.actor
    n = agent.num_atoms
    B = batch.batch_size[0]
    real_forward = actor.forward
    state = {"k": 0, "hits": 0}

    def forward(obs, q=True, log=False, **kw):
        if log:
            state["hits"] += 1
            out = torch.zeros(B, actor.num_actions, n)
            out[:, :, state["k"]] = -1.0
            return out
        return real_forward(obs, q=q, log=log, **kw)

    cols = []
    object.__setattr__(actor, "forward", forward)
    try:
        for k in range(n):
            state["k"], state["hits"] = k, 0
            loss = agent._dqn_loss(_clone(batch["obs"]), batch["action"].clone(), batch["reward"].clone(),
                                   _clone(batch["next_obs"]), batch["done"].clone(), gamma)
            if state["hits"] != 1 or tuple(loss.shape) != (B,):
                return None
            cols.append(loss.detach().double().numpy())
    finally:
        object.__delattr__(actor, "forward")
    return np.stack(cols, axis=1)


def check_projection(ctx, agent, batch, rows, g, case, kind):
    """kind: '1step' | 'nstep' (label only; g is what learn would pass)"""
    n, vmin, vmax = case["atoms"], case["vmin"], case["vmax"]
    r = batch["reward"].double().numpy().reshape(-1)
    d = batch["done"].double().numpy().reshape(-1)
    cands = source_candidates(agent, batch)
    ok, proj = _call(ctx, lambda: probe_projection(agent, batch, g), site="probe", kind=kind, rewards=r.tolist(), dones=d.tolist())
    if not ok:
        return None
    if proj is None:
        ctx.label("probe-ineffective")
        return None
    z = np.linspace(vmin, vmax, n)
    mass = proj.sum(1)
    mean = (proj * z[None, :]).sum(1)
    scale = max(1.0, abs(vmin), abs(vmax))
    tol_mass = tol_mean = 1e-5 + 4 * index_error_unit(case)
    best = None
    for name, na, src in cands:  # first candidate that satisfies both laws; report against the online-greedy one otherwise
        smass = src.sum(1)
        smean = clipped_mean(src, r, d, g, vmin, vmax, n)
        e_mass = np.abs(mass - smass) / np.maximum(1.0, smass)
        e_mean = np.abs(mean - smean) / (scale * np.maximum(1.0, smass))
        rec = (name, e_mass, e_mean, smass, smean)
        if best is None:
            best = rec
        if e_mass.max() <= tol_mass and e_mean.max() <= tol_mean:
            best = rec
            break
    name, e_mass, e_mean, smass, smean = best
    ctx.label("conservation_err" + _bucket(max(e_mass.max(), e_mean.max())))
    if name != "online":
        ctx.label("greedy-by-target-accepted")
    if e_mass.max() > tol_mass:
        i = int(e_mass.argmax())
        if abs(mass[i]) < 1e-5 * smass[i]:
            cls = "mass_vanishes"
        elif mass[i] < 0:
            cls = "mass_negative"
        else:
            cls = "mass_differs"
        onatom = "row_on_atoms" if _row_on_atoms(r[i], d[i], g, case) else "row_between_atoms"
        ctx.fail(f"C18/projection/{cls}/{onatom}", "total mass of the projected target distribution differs from the mass of the "
                 "target network's distribution of the greedy next action", row=i, projected_mass=mass.tolist(),
                 source_mass=smass.tolist(), rewards=r.tolist(), dones=d.tolist(), gamma=g, atoms=n, v_min=vmin, v_max=vmax,
                 projection_row=proj[i].tolist(), kind=kind)
    elif e_mean.max() > tol_mean:
        i = int(e_mean.argmax())
        # which ingredient of the target is not honoured?  (semantic class of the disagreement, from the reference model)
        alt = {"done_mask_ignored": clipped_mean(best_src(cands, name), r, 0 * d, g, vmin, vmax, n)}
        cls = "mean_differs"
        for kname, val in alt.items():
            if np.abs(mean - val).max() / scale <= 1e-5 * max(1.0, smass.max()):
                cls = kname
                break
        ctx.fail(f"C18/projection/{cls}", "mean of the projected target distribution differs from the mean of "
                 "clip(r + gamma^n (1-done) z) under the target network's distribution of the greedy next action", row=i,
                 projected_mean=mean.tolist(), source_mean=smean.tolist(), rewards=r.tolist(), dones=d.tolist(), gamma=g,
                 atoms=n, v_min=vmin, v_max=vmax, kind=kind)
    return proj


def best_src(cands, name):
    for nm, _, src in cands:
        if nm == name:
            return src
    return cands[0][2]


def _row_on_atoms(r, d, g, case):
    n, vmin, vmax = case["atoms"], case["vmin"], case["vmax"]
    z = np.linspace(vmin, vmax, n)
    dz = (vmax - vmin) / (n - 1)
    b = (np.clip(r + g * (1 - d) * z, vmin, vmax) - vmin) / dz
    return bool((np.abs(b - np.rint(b)) < 1e-5).any())


def run_projection(case, ctx):
    spec = make_spec(case)
    try:
        agent = ag.build(spec)
        perturb_target(agent, case["pseed"], case["pscale"])
        for s in case["warm"]:  # a few real learn steps: trained weights, fresh noise
            ag.seed_all(s)
            ag.learn_once(agent, spec, s)
            perturb_target(agent, case["pseed"] + s, case["pscale"])
    except Exception as e:  # noqa: BLE001 - precondition only
        ctx.label(f"setup-failed:{type(e).__name__}")
        return
    if not probe_available(agent):
        ctx.label("probe-unavailable")
        return
    differs = target_differs(agent)
    g1 = case["gamma"]
    gn = case["gamma"] ** case["n_step"]
    for bd in case["batches"]:
        ag.seed_all(bd["bseed"])
        which = "n" if bd["mode"] == "nstep" else "one"
        g = gn if which == "n" else g1
        batch, rows = make_batch(agent, spec, case, bd, which)
        r = batch["reward"].double().numpy().reshape(-1)
        d = batch["done"].double().numpy().reshape(-1)
        feats = batch_labels(ctx, rows, r, d, g, case)
        ctx.label("n-step" if which == "n" else "1-step")
        check_projection(ctx, agent, batch, rows, g, case, "nstep" if which == "n" else "1step")
        ctx.label("batches")
        if "done" in feats and ({"clipped-low", "clipped-high", "on-atom"} & feats) and differs:
            ctx.nontrivial({"N": case["atoms"], "v": [case["vmin"], case["vmax"]], "g": g, "B": case["B"],
                            "rows": [[x["k"], x["a"], round(x["f"], 3), x["d"]] for x in rows], "f": sorted(feats)})
    ctx.label(f"atoms={'2-5' if case['atoms'] <= 5 else '6-21' if case['atoms'] <= 21 else '22-51'}")
    ctx.label(f"obs={case['obs']}")


# ---------------------------------------------------------------------------
# (b) priorities / loss through the public learn()
# ---------------------------------------------------------------------------

def reference_ce(agent, batch, g, case):
    """per-sample cross-entropy candidates [(label, (B,) float64)] for one (1-step or n-step) batch"""
    n, vmin, vmax = case["atoms"], case["vmin"], case["vmax"]
    B = batch.batch_size[0]
    r = batch["reward"].double().numpy().reshape(-1)
    d = batch["done"].double().numpy().reshape(-1)
    a = batch["action"].reshape(B).long()
    with torch.no_grad():
        obs = agent.preprocess_observation(_clone(batch["obs"]))
        logq = agent.actor(obs, q=False, log=True).double()[torch.arange(B), a].numpy()
    out = []
    for name, na, src in source_candidates(agent, batch):
        m = reference_projection(src, r, d, g, vmin, vmax, n)
        # slack: moving a weight error of one index_error_unit between neighbouring atoms changes the row's cross-entropy by at most
        # unit * mass * 2 max|log q|
        out.append((f"greedy={name},log_softmax", -(m * logq).sum(1), 2 * np.abs(logq).max(1) * src.sum(1)))
    return out


def run_priorities(case, ctx):
    spec = make_spec(case)
    try:
        agent = ag.build(spec)
        if case.get("oscale"):
            sharpen_online(agent, case["oscale"])
        perturb_target(agent, case["pseed"], case["pscale"])
    except Exception as e:  # noqa: BLE001 - precondition only
        ctx.label(f"setup-failed:{type(e).__name__}")
        return
    B = case["B"]
    eps = case["prior_eps"]
    g1 = case["gamma"]
    gn = case["gamma"] ** case["n_step"]
    for bi, bd in enumerate(case["batches"]):
        perturb_target(agent, case["pseed"] + 1 + bi, case["pscale"])  # tau=0.3 pulls the target back after every step
        differs = target_differs(agent)
        nstep = bd["mode"] == "nstep"
        per = bool(bd["per"])
        mode = ("combined" if case["combined"] else "nstep") if nstep else "1step"
        one, rows1 = make_batch(agent, spec, case, bd, "one")
        parts = []
        feats = set()
        if mode in ("1step", "combined"):
            parts.append((one, g1))
            feats |= batch_labels(ctx, rows1, one["reward"].double().numpy().reshape(-1), one["done"].double().numpy().reshape(-1), g1, case)
        nb = None
        if nstep:
            nb, rowsn = make_batch(agent, spec, case, bd, "n")
            parts.append((nb, gn))
            feats |= batch_labels(ctx, rowsn, nb["reward"].double().numpy().reshape(-1), nb["done"].double().numpy().reshape(-1), gn, case)
        # the "online distribution of the action taken" is a probability distribution: its log-probabilities must be normalised
        # (independent of how forward() computes them; a floor / clamp on small probabilities breaks this for peaked networks)
        with torch.no_grad():
            o_ = agent.preprocess_observation(_clone(one["obs"]))
            lq_ = agent.actor(o_, q=False, log=True).double()
            lse = torch.logsumexp(lq_, dim=-1)
            pmin = float(lq_.exp().min())
        ctx.label("online-peaked(p_min<1e-3)" if pmin < 1e-3 else "online-flat")
        if float(lse.abs().max()) > 1e-4:
            ctx.fail("C18/online_distribution/log_probabilities_not_normalised",
                     "the online log-distribution the loss is taken against does not sum to one over the atoms",
                     max_abs_logsumexp=float(lse.abs().max()), smallest_probability=pmin, atoms=case["atoms"])
        # reference BEFORE learn (same weights, same noise buffers)
        cands = None
        for b, g in parts:
            cs = reference_ce(agent, b, g, case)
            cands = cs if cands is None else [(f"{l1}+{l2}", v1 + v2, s1 + s2) for l1, v1, s1 in cands for l2, v2, s2 in cs]
        unit = 8 * index_error_unit(case)
        exp = one.clone()
        if per:
            w = np.random.default_rng(bd["bseed"]).uniform(0.1, 1.0, size=(B, 1)).astype(np.float32)
            exp["weights"] = torch.tensor(w)
            exp["idxs"] = torch.arange(B).unsqueeze(1)
        elif nstep:
            exp["idxs"] = torch.arange(B)
        ag.seed_all(bd["bseed"])
        ok, out = _call(ctx, lambda: agent.learn(exp, n_experiences=(nb.clone() if nb is not None else None), per=per),
                        site="learn", mode=mode, per=per,
                        rewards=[b["reward"].reshape(-1).tolist() for b, _ in parts], dones=[b["done"].reshape(-1).tolist() for b, _ in parts])
        ctx.label(f"mode={mode}")
        ctx.label(f"per={per}")
        ctx.label({"1step": "1-step", "nstep": "n-step", "combined": "combined"}[mode])
        ctx.label("batches")
        if not ok:
            continue
        loss, _, prios = out
        steps = "one_step" if mode == "1step" else "multi_step"  # signature class; the exact mode is in the details
        det = dict(mode=mode, per=per, gamma=case["gamma"], n_step=case["n_step"], prior_eps=eps,
                   rewards=[b["reward"].reshape(-1).tolist() for b, _ in parts],
                   dones=[b["done"].reshape(-1).tolist() for b, _ in parts], atoms=case["atoms"], v_min=case["vmin"], v_max=case["vmax"])
        if per:
            got = np.asarray(prios, dtype=np.float64)
            if got.shape != (B,):
                ctx.fail(f"C18/priorities/{steps}/not_one_priority_per_sample", f"new priorities have shape {got.shape}, batch has {B} rows", **det)
                continue
            errs = [(float(((np.abs(got - eps - want) - unit * slack).clip(0) / np.maximum(1.0, np.abs(want))).max()), lab, want)
                    for lab, want, slack in cands]
            err, lab, want = next((e for e in errs if e[0] <= 1e-4), errs[0])
            ctx.label("cross_entropy_err" + _bucket(float((np.abs(got - eps - want) / np.maximum(1.0, np.abs(want))).max())))
            if err > 1e-4:
                if np.abs(got - want).max() <= 1e-4 * max(1.0, np.abs(want).max()) and eps >= 1e-3:
                    cls = "prior_eps_not_added"
                elif np.abs(got - eps - want.mean()).max() <= 1e-4 * max(1.0, abs(want.mean())) and B > 1:
                    cls = "mean_loss_instead_of_per_sample"
                else:
                    cls = "not_the_cross_entropy_of_the_projection"
                ctx.fail(f"C18/priorities/{steps}/{cls}", "priorities - prior_eps differ from the cross-entropy between the canonical "
                         "projection of the target distribution and the online log-distribution of the taken action",
                         got_minus_eps=(got - eps).tolist(), want=want.tolist(), rel_err=err, **det)
            elif "greedy=target" in lab:
                ctx.label("greedy-by-target-accepted")
        else:
            errs = [(max(0.0, abs(float(loss) - float(want.mean())) - unit * float(slack.mean())) / max(1.0, abs(float(want.mean()))), lab, want)
                    for lab, want, slack in cands]
            err, lab, want = next((e for e in errs if e[0] <= 1e-4), errs[0])
            if err > 1e-4:
                ctx.fail(f"C18/loss/{steps}/not_the_mean_cross_entropy_of_the_projection", "the loss learn() trains on (per=False) differs from "
                         "the mean cross-entropy between the canonical projection and the online log-distribution of the taken action",
                         got=float(loss), want=float(want.mean()), rel_err=err, **det)
        if "done" in feats and ({"clipped-low", "clipped-high", "on-atom"} & feats) and differs:
            ctx.nontrivial({"N": case["atoms"], "v": [case["vmin"], case["vmax"]], "g": case["gamma"], "n": case["n_step"], "B": B,
                            "m": mode, "per": per, "rows": [[x["k"], x["a"], round(x["f"], 3), x["d"]] for x in rows1],
                            "nrows": [[x["k"], x["a"], round(x["f"], 3), x["d"]] for x in bd["nrows"]] if nstep else None})
    ctx.label(f"atoms={'2-5' if case['atoms'] <= 5 else '6-21' if case['atoms'] <= 21 else '22-51'}")
    ctx.label(f"obs={case['obs']}")
    ctx.label(f"prior_eps={eps}")


# ---------------------------------------------------------------------------
# strategies
# ---------------------------------------------------------------------------

@st.composite
def row_strategy(draw, n):
    return {"k": draw(st.sampled_from(REWARD_KINDS)), "a": draw(st.integers(0, 2 * n)),
            "f": draw(st.floats(0.0, 1.0, allow_nan=False, width=32)), "d": draw(st.integers(0, 1))}


@st.composite
def support_strategy(draw):
    if draw(st.booleans()):
        return draw(st.sampled_from(NICE_SUPPORTS))
    vmin = draw(st.integers(-2000, 2000)) / 100.0
    width = draw(st.integers(5, 4000)) / 100.0
    return [vmin, round(vmin + width, 2)]


def case_strategy(kind):
    @st.composite
    def strat(draw, tier):
        thorough = tier == "thorough"
        n = draw(st.one_of(st.integers(2, 5), st.integers(2, 21), st.integers(2, 51)))
        vmin, vmax = draw(support_strategy())
        B = draw(st.integers(1, 8))
        fams = ["vector", "discrete"] + (["image", "dict", "multidiscrete", "multibinary"] if thorough else [])
        max_batches = (8 if thorough else 5) if n <= 21 else 3
        batches = draw(st.lists(st.fixed_dictionaries({
            "mode": st.sampled_from(["1step", "nstep"]),
            "per": st.integers(0, 1),
            "rows": st.lists(row_strategy(n), min_size=B, max_size=B),
            "nrows": st.lists(row_strategy(n), min_size=B, max_size=B),
            "bseed": st.integers(0, 9999)}), min_size=1, max_size=max_batches))
        case = {"obs": draw(st.sampled_from(fams)), "obsv": draw(st.integers(0, 2)), "actv": draw(st.integers(0, 2)),
                "seed": draw(st.integers(0, 9999)), "atoms": n, "vmin": vmin, "vmax": vmax, "B": B,
                "gamma": draw(st.one_of(st.sampled_from(GAMMAS), st.integers(1, 999).map(lambda i: i / 1000.0))),
                "n_step": draw(st.integers(1, 5)), "prior_eps": draw(st.sampled_from(PRIOR_EPS)),
                "combined": draw(st.integers(0, 1)), "pseed": draw(st.integers(0, 999)),
                "pscale": draw(st.sampled_from([0.1, 0.3, 1.0])), "batches": batches,
                "oscale": draw(st.sampled_from([0, 0, 10.0, 60.0, 200.0]))}
        if kind == "projection":
            case["warm"] = draw(st.lists(st.integers(0, 99), min_size=0, max_size=2))
        return case

    return strat


PROPERTY = Property(
    id="C18",
    level="exploration",
    rule=("generated Rainbow agents (atoms 2-51, nice and arbitrary two-decimal support ranges, gamma in {0,.5,.9,.99,1} or k/1000, n_step 1-5, "
          "batch_size 1-8, prior_eps, combined_reward on/off, target weights perturbed) each serving 1-5 drawn batches whose rows carry a "
          "drawn reward class (exactly an atom, integer multiple of delta_z, inside, below, above, edge, free) and done flag; "
          "(a) projection recovered by N unit-vector probes through _dqn_loss: mass and clipped mean conserved per row (rel 1e-5); "
          "(b) learn(): priorities - prior_eps == cross-entropy(reference projection, online log-dist of taken action) for 1-step / n-step / "
          "combined with per=True, loss == its mean with per=False (rel 1e-4). A batch is non-trivial when it holds >= 1 done row, >= 1 "
          "target atom clipped or exactly on an atom, and online != target; distinct by (atoms, support, gamma, n, B, mode, per, row classes)"),
    obligations=[
        Obligation("projection_conserves", run_projection, strategy=case_strategy("projection"),
                   examples={"quick": 150, "thorough": 1500}, shards={"quick": 5, "thorough": 16},
                   shrink_budget={"quick": 40, "thorough": 300}),
        Obligation("priorities_cross_entropy", run_priorities, strategy=case_strategy("priorities"),
                   examples={"quick": 150, "thorough": 1500}, shards={"quick": 5, "thorough": 16},
                   shrink_budget={"quick": 40, "thorough": 300}),
    ],
    assumptions=["batches have exactly agent.batch_size rows, reward/done (B,1), built through Transition + ReplayBuffer; n-step batch shares obs/action",
                 "source distribution = actor_target(next_obs, q=False) (clamped softmax, mass >= 1) at the greedy next action; greedy by the "
                 "online network or by the target network both accepted",
                 "online distribution = actor(obs, q=False, log=True), which must be normalised (logsumexp over the atoms = 0 +- 1e-4); in 3 of 5 "
                 "cases the online head's output layers are scaled x10 / x60 / x200 so that peaked (trained-like) networks occur",
                 "_dqn_loss(states, actions, rewards, next_states, dones, gamma) is internal: absent/changed => labels only, (b) decides",
                 "per=True scalar loss is not compared (weights are (B,1): broadcasting against (B,) is outside the statement)",
                 "tolerances: conservation 1e-5 relative to max(1,|v_min|,|v_max|) x mass, cross-entropy 1e-4 relative, each plus a few units of the "
                 "float32 index error eps32 (N-1) max(1, max|v| / (v_max - v_min)) (see index_error_unit)"],
    wanted_labels=["online-peaked(p_min<1e-3)", "online-flat", "on-atom", "clipped-low", "clipped-high", "done", "done-on-atom", "n-step", "1-step", "combined", "per=True", "per=False"],
)
