"""C02 - after any mutation an agent is coherent: optimizers, targets and critics follow."""
from __future__ import annotations

import numpy as np
import torch
from hypothesis import strategies as st

from vp.core import engine
from vp.core.engine import Obligation, Property
from vp.gen import agents as ag
from vp.gen import histories as hist
from vp.obs import tensors as T

DELAYED = ("DDPG", "TD3", "MATD3")
PROB_VECTORS = [
    [1, 0, 0, 0, 0], [0, 1, 0, 0, 0], [0, 0, 1, 0, 0], [0, 0, 0, 1, 0], [0, 0, 0, 0, 1],
    [0.2, 0.2, 0.2, 0.2, 0.2], [0, 0.5, 0.5, 0, 0], [0, 0.4, 0, 0.3, 0.3], [0.1, 0.6, 0.1, 0.1, 0.1], [0, 0.25, 0.25, 0.25, 0.25],
]


def _nets(agent, name):
    n = getattr(agent, name)
    return n if isinstance(n, list) else [n]


def _eval_names(agent):
    return [g.eval for g in agent.registry.groups]


def _arch_fields(net):
    """the architecture fields that actor and critic of one agent share (encoder, head hidden sizes, latent width)"""
    a = T.arch_of(net)
    enc = a.get("encoder_config") or {}
    head = a.get("head_config") or {}

    def pick(d):
        out = {}
        for k, v in d.items():
            if k in ("hidden_size", "channel_size", "kernel_size", "stride_size", "num_blocks", "hidden_state_size", "num_layers",
                     "activation", "latent_dim"):
                out[k] = v
            elif isinstance(v, dict) and k in ("cnn_config", "mlp_config"):
                out[k] = pick(v)
        return out

    return {"encoder": pick(enc), "head": pick(head), "latent_dim": a.get("latent_dim")}


def _opt_pairs(agent):
    """[(label, torch optimizer, [networks it must update], lr attribute name)]"""
    out = []
    for cfg in agent.registry.optimizers:
        w = getattr(agent, cfg.name)
        if cfg.multiagent:
            nets = getattr(agent, cfg.networks[0])
            for i, o in enumerate(w.optimizer):
                n = nets[i]
                out.append((f"{cfg.name}[{i}]", o, n if isinstance(n, list) else [n], cfg.lr))
        else:
            out.append((cfg.name, w.optimizer, [getattr(agent, n) for n in cfg.networks], cfg.lr))
    return out


def check_member(ctx, agent, spec, before, gen, mutation_label):
    algo = spec["algo"]
    mut = agent.mut
    site = f"C02/{algo}"
    # (a) optimizers update exactly the current parameters, with the current learning rate
    for label, opt, nets, lr_name in _opt_pairs(agent):
        have = {id(p) for g in opt.param_groups for p in g["params"]}
        want = {id(p) for n in nets for p in n.parameters()}
        if have != want:
            ctx.fail(f"C02/optimizer_params_stale/{label.split('[')[0]}",
                     "an optimizer does not hold exactly the current parameters of the networks it is registered for",
                     algo=algo, optimizer=label, mut=str(mut), missing=len(want - have), foreign=len(have - want))
        lr = getattr(agent, lr_name)
        bad = [g["lr"] for g in opt.param_groups if g["lr"] != lr]
        if bad:
            ctx.fail(f"C02/optimizer_lr_stale/{label.split('[')[0]}", "an optimizer group does not use the agent's current learning rate",
                     algo=algo, optimizer=label, group_lr=bad[0], agent_lr=lr, lr_name=lr_name, mut=str(mut))
    # (b) targets / shared networks shadow their eval network (architecture and, right after the mutation, weights)
    for grp in agent.registry.groups:
        if grp.shared is None:
            continue
        for sname in (grp.shared if isinstance(grp.shared, list) else [grp.shared]):
            for i, (e, t) in enumerate(zip(_nets(agent, grp.eval), _nets(agent, sname))):
                if T.arch_of(e) != T.arch_of(t):
                    ctx.fail(f"C02/target_architecture_differs/{sname}", "a target/shared network does not have the architecture of "
                             "the network it shadows", algo=algo, mut=str(mut), index=i)
                    continue
                te, tt = T.all_tensors(e), T.all_tensors(t)
                names = dict(e.named_parameters()).keys()
                bad = [k for k in names if k not in tt or tt[k].shape != te[k].shape or not torch.equal(tt[k], te[k])]
                if bad:
                    ctx.fail(f"C02/target_weights_differ_after_mutation/{sname}",
                             "right after the mutation a target/shared network does not carry the weights of the network it shadows",
                             algo=algo, mut=str(mut), index=i, tensors=bad[:3])
    # (b') share_encoders: the encoders of the other networks are "shared networks" of the policy's encoder; the sharing is a copy
    #      that the mutation hook refreshes, so RIGHT AFTER a mutation round it must carry the policy encoder's weights
    if getattr(agent, "share_encoders", False) and spec.get("share"):
        pol_net = _nets(agent, agent.registry.policy)[0]
        if hasattr(pol_net, "encoder"):
            src = T.all_tensors(pol_net.encoder)
            pnames = dict(pol_net.encoder.named_parameters()).keys()
            for name in _eval_names(agent):
                if name == agent.registry.policy:
                    continue
                for i, n in enumerate(_nets(agent, name)):
                    if not hasattr(n, "encoder") or T.arch_of(n.encoder) != T.arch_of(pol_net.encoder):
                        continue
                    dst = T.all_tensors(n.encoder)
                    bad = [k for k in pnames if k not in dst or dst[k].shape != src[k].shape or not torch.equal(dst[k], src[k])]
                    if bad:
                        ctx.fail(f"C02/shared_encoder_copy_stale_after_mutation/{name}",
                                 "share_encoders: right after the mutation the encoder of a network that shares the policy's encoder "
                                 "does not carry the policy encoder's weights", algo=algo, mut=str(mut), index=i, tensors=bad[:3])
            ctx.label("shared-encoder-copies-checked")
    # (c) networks trained alongside the policy received the same architecture change
    pol = agent.registry.policy
    pol_after = [_arch_fields(n) for n in _nets(agent, pol)]
    for name in _eval_names(agent):
        if name == pol:
            continue
        for i, n in enumerate(_nets(agent, name)):
            was_equal = before["fields"][name][i] == before["fields"][pol][min(i, len(before["fields"][pol]) - 1)]
            now = _arch_fields(n)
            if was_equal and now != pol_after[min(i, len(pol_after) - 1)]:
                ctx.fail(f"C02/critic_did_not_follow_policy/{name}", "a network trained alongside the policy did not receive the "
                         "policy's architecture change", algo=algo, mut=str(mut), policy=pol_after[min(i, len(pol_after) - 1)], other=now)
    # (d) the reported mutation is explained by what changed
    arch_changed = any(before["arch"][k] != T.arch_of(n) for k, n in T.flat_networks(agent).items()
                       if k.split("[")[0] in _eval_names(agent) and k in before["arch"])
    pol_w_changed = False
    for i, n in enumerate(_nets(agent, pol)):
        key = pol if not isinstance(getattr(agent, pol), list) else f"{pol}[{i}]"
        if key in before["tensors"]:
            cur = T.clone_tensors(n)
            if set(cur) != set(before["tensors"][key]) or T.tensors_equal(before["tensors"][key], cur):
                pol_w_changed = True
    hp_changed = [k for k in before["hps"] if getattr(agent, k) != before["hps"][k]]
    m = "None" if mut is None else str(mut)
    if m == "None":
        ctx.check(not arch_changed and not pol_w_changed and not hp_changed, "C02/mut_none_but_agent_changed",
                  "agent reports no mutation but its networks or hyper-parameters changed", algo=algo, arch=arch_changed,
                  weights=pol_w_changed, hps=hp_changed, requested=mutation_label)
    elif m == "param":
        ctx.check(not arch_changed, "C02/mut_param_but_architecture_changed", "", algo=algo)
        ctx.check(pol_w_changed, "C02/mut_param_but_policy_weights_unchanged", "", algo=algo)
    elif m == "act":
        ctx.check(arch_changed, "C02/mut_act_but_nothing_changed", "agent reports an activation mutation but no architecture "
                  "description changed", algo=algo)
    elif m in before["hps"]:
        ctx.check(all(h == m for h in hp_changed), "C02/mut_hp_but_other_hp_changed", "", algo=algo, changed=hp_changed, mut=m)
        ctx.check(not arch_changed and not pol_w_changed, "C02/mut_hp_but_networks_changed", "", algo=algo)
    else:  # an architecture method name
        ctx.check(not hp_changed, "C02/mut_arch_but_hp_changed", "", algo=algo, mut=m, changed=hp_changed)
    return m


def run_generations(case, ctx):
    spec = case["spec"]
    algo = spec["algo"]
    n = case["pop"]
    try:
        shared = ag.make_hp_config(algo)
        pop = [ag.build(dict(spec, seed=spec["seed"] + i, index=i), hp_config=shared) for i in range(n)]
    except Exception as e:
        ctx.label(f"setup-failed:{type(e).__name__}")
        return
    kinds_seen = []
    learned_after_mut = False
    for gen, g in enumerate(case["gens"]):
        if not (gen == 0 and case["pre_training"]):
            try:
                for i, a in enumerate(pop):
                    for s in range(g["learn"]):
                        ag.seed_all(g["seed"] + s)
                        ag.learn_once(a, spec, g["seed"] + 10 * i + s)
                    a.fitness.append(float((g["seed"] + i) % 4))
                if g["select"] and len(pop) > 1:
                    from agilerl.hpo.tournament import TournamentSelection

                    ag.seed_all(g["seed"])
                    _, pop = TournamentSelection(2, True, len(pop), 1).select(pop)
            except Exception as e:
                ctx.label(f"setup-failed:{type(e).__name__}")
                return
        before = []
        for a in pop:
            before.append({
                "arch": {k: T.arch_of(m) for k, m in T.flat_networks(a).items()},
                "tensors": {k: T.clone_tensors(m) for k, m in T.flat_networks(a).items() if k.split("[")[0] == a.registry.policy},
                "fields": {name: [_arch_fields(m) for m in _nets(a, name)] for name in _eval_names(a)},
                "hps": {k: getattr(a, k) for k in a.registry.hp_config.names()},
                "index": a.index,
            })
        probs = PROB_VECTORS[g["probs"]]
        label = "/".join(k for k, p in zip(hist.MUT_KINDS, probs) if p > 0)
        mut = hist.make_mutations(probs, g["seed"], new_layer_prob=g["nlp"], mutate_elite=g["elite"])
        with ctx.promised(f"C02/mutation_call/{algo}", probs=probs, pre_training=bool(gen == 0 and case["pre_training"])):
            new_pop = mut.mutation(pop, pre_training_mut=bool(gen == 0 and case["pre_training"]))
        ctx.check(len(new_pop) == len(pop), "C02/population_size_changed", "", got=len(new_pop), want=len(pop))
        ctx.check([a.index for a in new_pop] == [b["index"] for b in before], "C02/population_order_changed",
                  "mutation changed the order / indices of the population", got=[a.index for a in new_pop])
        pop = list(new_pop)
        for a, b in zip(pop, before):
            m = check_member(ctx, a, spec, b, gen, label)
            kinds_seen.append(m)
            ctx.label(f"mut={'arch-method' if m not in ('None', 'param', 'act') and m not in b['hps'] else ('hp' if m in b['hps'] else m)}")
            if not g["elite"] and a is pop[0]:
                ctx.check(m == "None", "C02/elite_mutated_despite_mutate_elite_false", "", mut=m)
        # (e) the agent can still act, and a learn step moves every trained network
        for i, a in enumerate(pop):
            with ctx.promised(f"C02/act_after_mutation/{algo}", mut=str(a.mut)):
                ag.act_greedy(a, spec, g["seed"])
            snaps = {name: [T.clone_tensors(m) for m in _nets(a, name)] for name in _eval_names(a)}
            steps = getattr(a, "policy_freq", 1) if algo in DELAYED else 1
            with ctx.promised(f"C02/learn_after_mutation/{algo}", mut=str(a.mut)):
                for s in range(steps):
                    ag.seed_all(g["seed"] + 77 + s)
                    ag.learn_once(a, spec, g["seed"] + 77 + s)
            for name in _eval_names(a):
                for j, mnet in enumerate(_nets(a, name)):
                    params = dict(mnet.named_parameters())
                    cur = T.clone_tensors(mnet)
                    moved = [k for k in params if k in snaps[name][j] and not torch.equal(cur[k], snaps[name][j][k])]
                    has_grad = any(p.grad is not None and bool((p.grad != 0).any()) for p in params.values())
                    if params and not moved and not has_grad:
                        ctx.label("zero-gradient-network")  # e.g. dead ReLUs between action input and Q: nothing to move
                    elif params and not moved:
                        ctx.fail(f"C02/learn_does_not_move/{name}", "after the mutation a learn step leaves a trained network's "
                                 "parameters untouched", algo=algo, mut=str(a.mut), network=f"{name}[{j}]")
            if kinds_seen and kinds_seen[-1] != "None":
                learned_after_mut = True
    ctx.label(f"algo={algo}")
    if spec.get("maxl"):
        ctx.label("tight-layer-bound")
    if any(k != "None" for k in kinds_seen) and learned_after_mut:
        ctx.nontrivial({"a": algo, "o": spec.get("obs"), "k": kinds_seen})


@st.composite
def gen_strategy(draw, tier):
    algo = draw(st.sampled_from(engine.stratum(ag.ALL_ALGOS)))
    if algo in ag.BANDITS:
        fam = "vector"
    elif algo in ag.MULTI_OFF + ag.MULTI_ON:
        fam = draw(st.sampled_from(["vector", "image", "dict", "discrete"]))
    else:
        fam = draw(st.sampled_from(["vector", "image", "dict", "tuple", "discrete", "multidiscrete"]))
    spec = {"algo": algo, "obs": fam, "obsv": draw(st.integers(0, 2)), "actv": draw(st.integers(0, 2)), "seed": draw(st.integers(0, 9999))}
    if algo in ag.SINGLE_CONT + ["PPO"]:
        spec["share"] = draw(st.booleans())
    if algo in ag.SINGLE_CONT:
        spec["act"] = draw(st.sampled_from(["box", "box_asym"]))
    elif algo == "PPO":
        spec["act"] = draw(st.sampled_from(["discrete", "box", "multidiscrete"]))
    elif algo in ag.MULTI_OFF + ag.MULTI_ON:
        spec["act"] = draw(st.sampled_from(["discrete", "box"]))
    if draw(st.integers(0, 2)) == 0:
        spec["maxl"] = draw(st.sampled_from([1, 2, 3]))  # tight head-layer bound: add_layer hits its limit / fall-back quickly
    gens = draw(st.lists(st.fixed_dictionaries({
        "learn": st.integers(0, 2), "select": st.booleans(), "probs": st.integers(0, len(PROB_VECTORS) - 1),
        "seed": st.integers(0, 999), "nlp": st.sampled_from([0.0, 0.3, 1.0]), "elite": st.booleans()}),
        min_size=1, max_size=2 if tier == "quick" else 5))
    if spec.get("maxl"):
        # make the tight bound matter: at least one pure architecture round that prefers layer mutations
        gens[0]["probs"], gens[0]["nlp"] = 1, 1.0
        if len(gens) > 1:
            gens[1]["probs"], gens[1]["nlp"] = 1, draw(st.sampled_from([0.3, 1.0]))
    return {"spec": spec, "pop": draw(st.integers(1, 3)), "pre_training": draw(st.booleans()), "gens": gens}


PROPERTY = Property(
    id="C02",
    level="exploration",
    rule=("agent config x Mutations probability vector (all five one-hot corners and mixtures, new_layer_prob, mutate_elite, seed) x population 1-3 "
          "(shared hp config) x pre-training flag x 1-2 (quick) / 1-5 generations of [learn, optional tournament selection, mutation]; "
          "invariants on every member after every mutation() (optimizer<->parameter identity, lr, target == eval, critic follows policy, "
          "mut label explained, can act, learn moves every trained network). non-trivial = >=1 non-None mutation followed by a learn step; "
          "distinct by (algorithm, obs family, sequence of reported mutations)"),
    obligations=[
        Obligation("generations", run_generations, strategy=gen_strategy,
                   examples={"quick": 30, "thorough": 400}, shards={"quick": 14, "thorough": 16},
                   shrink_budget={"quick": 60, "thorough": 300}),
    ],
    assumptions=["actor and critic are built from the same net_config, so 'same architecture change' is checked as 'shared fields equal before => equal after'",
                 "share_encoders drawn True/False for PPO/DDPG/TD3"],
    wanted_labels=["mut=arch-method", "mut=param", "mut=act", "mut=hp", "mut=None"],
)
