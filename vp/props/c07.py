"""C07 - a saved checkpoint restores an equivalent agent (both load paths, then identical continuation)."""
from __future__ import annotations

import os
import re
import shutil
import tempfile

import numpy as np
from hypothesis import strategies as st

from vp.core.engine import Obligation, Property
from vp.gen import agents as ag
from vp.gen import histories as hist
from vp.obs import tensors as T
from vp.props.c01 import spec_strategy


def _norm(path: str) -> str:
    head = path.split(":")[0].split(" ")[0]
    parts = head.split(".")
    return parts[0] + "." + re.sub(r"\[.*?\]", "", parts[1]) if len(parts) > 1 else parts[0]


def _wrap(agent, wrapper, spec):
    if wrapper == "rsnorm":
        from agilerl.wrappers.agent import RSNorm

        return RSNorm(agent)
    return agent


def _inner(agent):
    return getattr(agent, "agent", agent)


def run_roundtrip(case, ctx):
    spec = case["spec"]
    algo = spec["algo"]
    wrapper = case["wrapper"]
    d = tempfile.mkdtemp(prefix="vpc07_")
    try:
        try:
            agent = ag.build(spec, hp_config=ag.make_hp_config(algo))
            saves = []
            for i, op in enumerate(case["history"]):
                agent = hist.apply_op(agent, spec, op)
            agent = _wrap(agent, wrapper, spec)
            if wrapper == "rsnorm":
                # let the wrapper accumulate running statistics (through its own get_action)
                obs_space, _ = ag.spaces_for(spec)
                from vp.gen import spaces as sp

                rng = np.random.default_rng(case["obs_seed"])
                for _ in range(2):
                    agent.get_action(sp.sample_obs(obs_space, 3, rng))
            if case.get("resumed"):
                # the agent under test has itself been restored from an earlier checkpoint and has lived on since
                # ("every history ... before the save": a resumed run saves again)
                p0 = os.path.join(d, "generation0.pt")
                agent.save_checkpoint(p0)
                if case["resumed"] == 1:
                    fresh = _wrap(ag.build(dict(spec, seed=spec["seed"] + 2), hp_config=ag.make_hp_config(algo)), wrapper, spec)
                    fresh.load_checkpoint(p0)
                    agent = fresh
                else:
                    agent = type(_inner(agent)).load(p0)
                if wrapper == "rsnorm":
                    for _ in range(2):
                        agent.get_action(sp.sample_obs(obs_space, 4, rng))
                else:
                    ag.seed_all(case["cseed"])
                    ag.learn_once(agent, spec, case["cseed"] + 77)
                ctx.label("saved-by-a-resumed-agent")
            inner = _inner(agent)
            inner.scores = [1.0, 2.5]
            inner.fitness = [0.5] + [float(x) for x in case["fitness"]]
            inner.steps = [7, 11]
        except Exception as e:
            ctx.label(f"setup-failed:{type(e).__name__}")
            return
        path = os.path.join(d, "ckpt.pt")
        with ctx.promised(f"C07/save/{algo}", wrapper=wrapper):
            agent.save_checkpoint(path)
        before = T.snapshot(inner)
        import copy as _copy

        rms_saved = _copy.deepcopy(getattr(agent, "obs_rms", None)) if wrapper == "rsnorm" else None
        meta = (inner.index, inner.mut, list(inner.scores), list(inner.fitness), list(inner.steps))
        for load_path in case["paths"]:
            site = f"C07/{load_path}"
            with ctx.promised(f"{site}/load/{algo}", wrapper=wrapper,
                              history=[o[0] + (":" + o[1] if o[0] == "mutate" else "") for o in case["history"]]):
                if load_path == "load_classmethod":
                    restored = type(inner).load(path)
                else:
                    fresh = ag.build(dict(spec, seed=spec["seed"] + 1), hp_config=ag.make_hp_config(algo))
                    fresh = _wrap(fresh, wrapper, spec)
                    fresh.load_checkpoint(path)
                    restored = fresh
            r_inner = _inner(restored)
            if wrapper != "none":
                ctx.check(type(restored).__name__ == type(agent).__name__, f"{site}/wrapper_not_restored",
                          "the agent wrapper is not restored around the loaded agent", got=type(restored).__name__)
            after = T.snapshot(r_inner)
            diffs = [x for x in T.diff(before, after) if not x.startswith("values.agilerl_version")
                     and not x.startswith("values.wrapper_")]
            if spec.get("share"):
                stale = [x for x in diffs if x.startswith("tensors.") and ".encoder." in x and not x.startswith(f"tensors.{inner.registry.policy}")]
                if stale:
                    # see C01/faithful/shared_encoder_copy_differs: the saved agent's copy is stale, loading refreshes it
                    ctx.abort("C07/shared_encoder_copy_differs", "share_encoders=True: the restored agent's non-policy encoder copies were "
                              "refreshed from the policy while the saved agent's were stale", algo=algo, path=load_path, diffs=stale[:4])
            for x in diffs[:1]:
                ctx.fail(f"{site}/differs/{_norm(x)}", f"restored agent differs from the saved one: {x}", algo=algo,
                         wrapper=wrapper, diffs=diffs[:6])
            meta_r = (r_inner.index, r_inner.mut, list(r_inner.scores), list(r_inner.fitness), list(r_inner.steps))
            ctx.check(meta_r == meta, f"{site}/bookkeeping_differs", "index / mut / scores / fitness / steps not restored",
                      saved=meta, restored=meta_r)
            if wrapper == "rsnorm":
                for attr in ("obs_rms",):
                    # (the wrapper patches the inner agent's get_action, so later calls move the live statistics)
                    a, b = rms_saved, getattr(restored, attr, None)
                    if a is not None:
                        same = _rms_equal(a, b)
                        ctx.check(same, f"{site}/wrapper_statistics_differ", "running normalisation statistics not restored")
            if diffs or wrapper != "none":
                # (a wrapper patches the inner agent's get_action and keeps running statistics: acting is not side-effect free)
                continue
            # same greedy actions
            with ctx.promised(f"{site}/act/{algo}"):
                x = ag.act_greedy(inner, spec, case["obs_seed"])
                y = ag.act_greedy(r_inner, spec, case["obs_seed"])
            ctx.check(np.array_equal(np.asarray(x), np.asarray(y)), f"{site}/greedy_action_differs",
                      "restored agent picks other greedy actions", algo=algo)
        # continuation: original and the LAST restored agent learn from the same batches
        if case["continue"] and wrapper == "none" and not T.diff(before, T.snapshot(_inner(restored))):
            try:
                for who in (inner, _inner(restored)):
                    for i in range(case["continue"]):
                        ag.seed_all(case["cseed"] + i)
                        ag.learn_once(who, spec, case["cseed"] + i)
            except Exception as e:
                ctx.label(f"continuation-failed:{type(e).__name__}")
                return
            dd = T.diff(T.snapshot(inner), T.snapshot(_inner(restored)), sections=("tensors", "opts"))
            if dd:
                ctx.fail(f"C07/continuation/{_norm(dd[0])}", f"after identical learn steps original and restored agent differ: {dd[0]}",
                         algo=algo, diffs=dd[:6])
    finally:
        shutil.rmtree(d, ignore_errors=True)
    ctx.label(f"algo={algo}")
    ctx.label(f"wrapper={wrapper}")
    ctx.label(f"obs={spec.get('obs')}")
    kinds = [o[0] + (":" + o[1] if o[0] == "mutate" else "") for o in case["history"]]
    arch_mut = any(k in ("mutate:arch", "mutate:act") for k in kinds)
    learned_after = False
    seen_mut = False
    for k in kinds:
        if k.startswith("mutate"):
            seen_mut = True
            learned_after = False
        elif k == "learn":
            learned_after = True
    if arch_mut and learned_after:
        ctx.nontrivial({"a": algo, "o": spec.get("obs"), "w": wrapper, "h": kinds, "p": case["paths"]})


def _rms_equal(a, b):
    import torch

    if b is None:
        return False
    if isinstance(a, dict):
        return all(_rms_equal(a[k], b.get(k)) for k in a)
    if isinstance(a, (tuple, list)):
        return len(a) == len(b) and all(_rms_equal(x, y) for x, y in zip(a, b))
    # every attribute of the running statistics: mean, var, the sample COUNT (it weights the next update) and epsilon
    va, vb = vars(a), vars(b)
    if set(va) != set(vb):
        return False
    for k, x in va.items():
        y = vb[k]
        if isinstance(x, torch.Tensor) or isinstance(y, torch.Tensor):
            x, y = torch.as_tensor(x), torch.as_tensor(y)
            if x.shape != y.shape or not torch.equal(x.to(torch.float64).cpu(), y.to(torch.float64).cpu()):
                return False
        elif isinstance(x, (int, float, str, bool, tuple, list, type(None))):
            if x != y:
                return False
    return True


@st.composite
def rt_strategy(draw, tier):
    spec = draw(spec_strategy())
    spec["netact"] = True
    wrapper = "none"
    if spec["algo"] in ag.SINGLE_DISCRETE + ag.SINGLE_CONT + ag.ONPOLICY and (
            spec["obs"] in ("vector", "image") or (spec["obs"] == "dict" and spec["obsv"] % 3 != 1)):
        wrapper = draw(st.sampled_from(["none", "rsnorm"]))
    h = draw(hist.history_strategy(3 if tier == "quick" else 8, kinds=("learn", "mutate", "clone", "act")))
    if draw(st.integers(0, 9)) < 6:  # make sure saved architectures differ from the defaults and targets lag
        kind = draw(st.sampled_from(["arch", "arch", "act", "param", "rl_hp"]))
        h = h[:2] + [["mutate", kind, draw(st.integers(0, 999))]] + h[2:3] + [["learn", draw(st.integers(0, 999))]]
    return {"spec": spec, "wrapper": wrapper, "history": h,
            "paths": draw(st.sampled_from([["load_classmethod"], ["load_checkpoint"], ["load_classmethod", "load_checkpoint"]])),
            "fitness": draw(st.lists(st.integers(-3, 3), max_size=3)),
            "continue": draw(st.integers(0, 3)), "cseed": draw(st.integers(0, 999)), "obs_seed": draw(st.integers(0, 999)),
            "resumed": draw(st.sampled_from([0, 0, 1, 2]))}


PROPERTY = Property(
    id="C07",
    level="exploration",
    rule=("(algorithm x obs family x action kind x wrapper none/RSNorm) x history of learn steps / mutations / clones (architectures differ from "
          "defaults, targets lag) -> save_checkpoint -> Algo.load(path) and/or fresh_agent.load_checkpoint(path) -> snapshot diff (hyper-parameters, "
          "architectures, every weight incl. target tensors, optimizer settings+state, registry, bookkeeping, wrapper statistics), greedy "
          "actions, then 0-3 identical learn steps on original and restored. non-trivial = the history holds an architecture mutation and a "
          "learn step after the last mutation; distinct by (algorithm, family, wrapper, op kinds, load paths)"),
    obligations=[
        Obligation("roundtrip", run_roundtrip, strategy=rt_strategy,
                   examples={"quick": 30, "thorough": 400}, shards={"quick": 14, "thorough": 16},
                   shrink_budget={"quick": 60, "thorough": 300}),
    ],
    assumptions=["checkpoints are written to a per-case temp directory that is removed afterwards",
                 "crash points are modelled as 'the restored agent equals the agent as of the save' (saving after a drawn prefix of the history)",
                 "share_encoders=False; exact comparisons (single-threaded torch)"],
)
