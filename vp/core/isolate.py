"""Run one case in a sacrificial child process, in its own session, under a hard wall-clock watchdog.

Used by every case that spawns ``AsyncPettingZooVecEnv`` workers: the code under test can block forever in
``pipe.recv()``.  The parent kills the whole process group when the child is done (whatever the outcome) and waits
until no process of that session is left, so no worker survives a case.

    run_isolated(fn, arg, timeout_s) -> {"status": "ok" | "timeout" | "crash", "result": ..., "progress": [...],
                                          "leftover": int, "wall_s": float}

``fn(arg)`` runs in the child and returns something JSON-serialisable (numpy scalars/arrays are converted).  Inside
``fn`` call ``isolate.progress(obj)`` to leave breadcrumbs that survive a timeout (the parent returns them in
``progress``; the last one tells which call was hanging).  ``call_with_alarm`` bounds one call inside the child.
"""
from __future__ import annotations

import json
import os
import select
import signal
import sys
import time
import traceback

from vp.core.engine import canon

_CHANNEL = None  # fd of the child's result pipe


def progress(obj) -> None:
    if _CHANNEL is not None:
        _send({"p": obj})


def _send(obj) -> None:
    data = canon(obj).encode() + b"\n"
    view = memoryview(data)
    while view:
        n = os.write(_CHANNEL, view)
        view = view[n:]


def _session_pids(sid: int):
    out = []
    for name in os.listdir("/proc"):
        if not name.isdigit():
            continue
        try:
            with open(f"/proc/{name}/stat", "rb") as f:
                s = f.read().decode("latin1")
            rest = s[s.rindex(")") + 2:].split()
            state, pgrp, sess = rest[0], int(rest[2]), int(rest[3])
        except (OSError, ValueError, IndexError):
            continue
        if (sess == sid or pgrp == sid) and state != "Z":
            out.append(int(name))
    return out


def _child(fn, arg, wfd) -> None:
    global _CHANNEL
    code = 0
    try:
        os.setsid()
        try:  # die with the parent (the shard process)
            import ctypes

            ctypes.CDLL(None).prctl(1, signal.SIGKILL)
        except Exception:  # noqa: BLE001
            pass
        _CHANNEL = wfd
        if not os.environ.get("VERIF_DEBUG"):
            dn = os.open(os.devnull, os.O_WRONLY)
            os.dup2(dn, 1)
            os.dup2(dn, 2)
        # the shard is a daemonic pool worker; the vector env must be allowed to start processes from here
        import multiprocessing as mp

        cur = mp.current_process()
        cur._config["daemon"] = False
        try:
            mp.process._children.clear()
        except Exception:  # noqa: BLE001
            pass
        for s in (signal.SIGTERM, signal.SIGINT, signal.SIGALRM):
            signal.signal(s, signal.SIG_DFL)
        result = fn(arg)
        _send({"final": result})
    except BaseException as e:  # noqa: BLE001
        code = 3
        try:
            _send({"error": f"{type(e).__name__}: {e}", "traceback": "".join(traceback.format_exception(e))[-3000:]})
        except BaseException:  # noqa: BLE001
            pass
    finally:
        try:
            os.close(wfd)
        except OSError:
            pass
        os._exit(code)


def run_isolated(fn, arg, timeout_s: float) -> dict:
    rfd, wfd = os.pipe()
    sys.stdout.flush()
    sys.stderr.flush()
    t0 = time.monotonic()
    pid = os.fork()
    if pid == 0:
        os.close(rfd)
        _child(fn, arg, wfd)  # never returns
    os.close(wfd)
    buf = bytearray()
    deadline = t0 + timeout_s
    exited = None
    timed_out = False
    try:
        while True:
            # workers inherit the write end, so EOF is not a reliable end marker: watch the child itself
            r, _, _ = select.select([rfd], [], [], 0.02)
            if r:
                chunk = os.read(rfd, 1 << 16)
                if chunk:
                    buf += chunk
                    continue
            try:
                wpid, st = os.waitpid(pid, os.WNOHANG)
            except ChildProcessError:
                wpid, st = pid, 0
            if wpid == pid:
                exited = st
                break
            if time.monotonic() > deadline:
                timed_out = True
                break
        # drain what is left in the pipe without blocking
        while True:
            r, _, _ = select.select([rfd], [], [], 0)
            if not r:
                break
            chunk = os.read(rfd, 1 << 16)
            if not chunk:
                break
            buf += chunk
    finally:
        leftover = _reap(pid, exited is None)
        os.close(rfd)

    progress_, final, error = [], None, None
    have_final = False
    for line in bytes(buf).split(b"\n"):
        if not line.strip():
            continue
        try:
            rec = json.loads(line)
        except ValueError:
            continue  # a line cut off by the kill
        if "p" in rec:
            progress_.append(rec["p"])
        elif "final" in rec:
            final, have_final = rec["final"], True
        elif "error" in rec:
            error = rec
    out = {"progress": progress_, "leftover": leftover, "wall_s": time.monotonic() - t0}
    if have_final:
        out.update(status="ok", result=final)
    elif timed_out:
        out.update(status="timeout", result=None)
    else:
        sig = os.WTERMSIG(exited) if exited is not None and os.WIFSIGNALED(exited) else None
        out.update(status="crash", result={"signal": sig, "error": error})
    return out


def _reap(pid: int, child_running: bool) -> int:
    """Kill the child's process group / session, wait for the child, and wait until the session is empty.
    Returns how many processes other than the child were still alive when the case ended."""
    others = [p for p in _session_pids(pid) if p != pid]
    for _ in range(3):
        try:
            os.killpg(pid, signal.SIGKILL)
        except (ProcessLookupError, PermissionError):
            pass
        for p in _session_pids(pid):
            try:
                os.kill(p, signal.SIGKILL)
            except (ProcessLookupError, PermissionError):
                pass
        if child_running:
            try:
                os.kill(pid, signal.SIGKILL)
            except ProcessLookupError:
                pass
            try:
                os.waitpid(pid, 0)
            except ChildProcessError:
                pass
            child_running = False
        end = time.monotonic() + 2.0
        while time.monotonic() < end:
            if not _session_pids(pid):
                return len(others)
            time.sleep(0.005)
    return len(others)


class CallTimeout(BaseException):
    """Raised inside the child by the alarm that bounds one call (BaseException: not swallowed by `except Exception`)."""


def call_with_alarm(fn, seconds: float):
    """Run fn() in the child's main thread; raise CallTimeout if it does not return within `seconds`.
    Returns (value, elapsed_s)."""

    def handler(signum, frame):
        raise CallTimeout()

    old = signal.signal(signal.SIGALRM, handler)
    t0 = time.monotonic()
    signal.setitimer(signal.ITIMER_REAL, seconds)
    try:
        v = fn()
    finally:
        signal.setitimer(signal.ITIMER_REAL, 0)
        signal.signal(signal.SIGALRM, old)
    return v, time.monotonic() - t0
