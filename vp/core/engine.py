"""Core of the property-based checking harness.

A *property* is a list of *obligations*.  An obligation couples a generator of
JSON-serialisable cases (a Hypothesis strategy and/or an exhaustive enumerator)
with ``run_case(case, ctx)`` which drives the real AgileRL code and an oracle.
``run_case`` reports disagreement through ``ctx`` (never by asserting), so the
driver can classify failures by *signature*, keep searching past signatures it
already knows (collect - classify - continue), and shrink one signature at a
time.
"""
from __future__ import annotations

import contextlib
import hashlib
import json
import os
import sys
import time
import traceback
from collections import Counter
from dataclasses import dataclass, field
from typing import Any, Callable, Dict, Iterable, List, Optional

MAX_SIGNATURES_PER_RUN = 8


class Violation(Exception):
    def __init__(self, signature: str, message: str, details: Optional[dict] = None):
        super().__init__(f"{signature}: {message}")
        self.signature = signature
        self.message = message
        self.details = details or {}


class _AbortCase(Exception):
    """An excluded (already known) failure makes the rest of the case moot."""


class HarnessError(Exception):
    pass


def canon(obj: Any) -> str:
    return json.dumps(obj, sort_keys=True, separators=(",", ":"), default=_json_default)


def _json_default(o):
    try:
        import numpy as np

        if isinstance(o, np.generic):
            return o.item()
        if isinstance(o, np.ndarray):
            return o.tolist()
    except Exception:  # pragma: no cover
        pass
    if isinstance(o, (set, frozenset)):
        return sorted(o)
    if isinstance(o, tuple):
        return list(o)
    return repr(o)


def jsonable(obj: Any) -> Any:
    return json.loads(canon(obj))


def h(obj: Any) -> str:
    return hashlib.sha1(canon(obj).encode()).hexdigest()[:16]


_SHARD = (0, 1)  # (shard, nshards) of the shard whose strategy is being drawn from (set by run_shard)


def stratum(options):
    """Stratified choice of a categorical axis (e.g. the algorithm): Hypothesis' sampled_from is clumpy for small example
    budgets (one algorithm could get 2 of 420 cases of a run), so each shard concentrates on its own slice of `options`
    and all shards together cover every option at every seed.  Shards beyond len(options) keep the whole list.
    Outside a sharded run (replay, fuzzing) the whole list is returned."""
    opts = list(options)
    k, n = _SHARD
    if n <= 1 or len(opts) <= 1:
        return opts
    if n >= len(opts):
        return [opts[k]] if k < len(opts) else opts
    return opts[k::n]


def derive_seed(*parts: Any) -> int:
    d = hashlib.sha256("|".join(str(p) for p in parts).encode()).digest()
    return int.from_bytes(d[:4], "big")


def site_of(exc: BaseException) -> str:
    """Innermost frame inside the agilerl package: 'file.py:function'."""
    tb = traceback.extract_tb(exc.__traceback__)
    best = None
    for fr in tb:
        fn = fr.filename.replace("\\", "/")
        if "/agilerl/" in fn:
            best = f"{os.path.basename(fn)}:{fr.name}"
    return best or "outside-agilerl"


class Stats:
    def __init__(self):
        self.evaluations = 0
        self.labels: Counter = Counter()
        self.nontrivial: Dict[str, Any] = {}
        self.nontrivial_evals = 0
        self.samples: List[Any] = []
        self.excluded: Counter = Counter()

    def to_json(self):
        return {
            "evaluations": self.evaluations,
            "labels": dict(self.labels),
            "nontrivial_keys": list(self.nontrivial.keys()),
            "nontrivial_evals": self.nontrivial_evals,
            "samples": self.samples,
            "excluded": dict(self.excluded),
        }


class Ctx:
    """Handed to run_case.  All oracle verdicts go through here."""

    def __init__(self, stats: Stats, excluded=(), target: Optional[str] = None, tier="quick"):
        self.stats = stats
        self.excluded = set(excluded)
        self.target = target
        self.tier = tier
        self._case = None
        self._case_nontrivial = False

    # -- verdicts ---------------------------------------------------------
    def _suppressed(self, sig: str) -> bool:
        if sig in self.excluded:
            return True
        if self.target is not None and sig != self.target:
            return True
        return False

    def fail(self, sig: str, msg: str, **details) -> None:
        """Record a violation of class ``sig``; the case continues if that
        class is excluded in this round."""
        if self._suppressed(sig):
            self.stats.excluded[sig] += 1
            return
        raise Violation(sig, msg, jsonable(details))

    def check(self, cond: bool, sig: str, msg: str = "", **details) -> bool:
        if not cond:
            self.fail(sig, msg, **details)
        return bool(cond)

    def abort(self, sig: str, msg: str, **details) -> None:
        """Like fail, but the case cannot meaningfully continue."""
        if self._suppressed(sig):
            self.stats.excluded[sig] += 1
            raise _AbortCase(sig)
        raise Violation(sig, msg, jsonable(details))

    @contextlib.contextmanager
    def promised(self, sig: str, **details):
        """The statement promises the enclosed AgileRL call succeeds on this
        domain: an exception is a violation whose class is the call site."""
        try:
            yield
        except (Violation, _AbortCase, HarnessError, KeyboardInterrupt):
            raise
        except Exception as e:  # noqa: BLE001 - see docstring
            full = f"{sig}/{type(e).__name__}@{site_of(e)}"
            self.abort(
                full,
                f"{type(e).__name__}: {str(e)[:300]}",
                traceback="".join(traceback.format_exception(e))[-1500:],
                **details,
            )

    # -- statistics -------------------------------------------------------
    def label(self, name: str, n: int = 1) -> None:
        self.stats.labels[name] += n

    def nontrivial(self, key: Any) -> None:
        """Declare the current case non-trivial; ``key`` identifies what makes
        it distinct from other non-trivial cases."""
        k = h(key)
        self.stats.nontrivial_evals += 1
        if k not in self.stats.nontrivial:
            self.stats.nontrivial[k] = 1
            if len(self.stats.samples) < 4 and self._case is not None:
                self.stats.samples.append(jsonable(self._case))


@dataclass
class Obligation:
    name: str
    run_case: Callable[[dict, Ctx], None]
    strategy: Optional[Callable[[str], Any]] = None  # tier -> hypothesis strategy
    enumerate: Optional[Callable[[str], Iterable[dict]]] = None  # tier -> cases
    examples: Dict[str, int] = field(default_factory=lambda: {"quick": 100, "thorough": 1000})
    shards: Dict[str, int] = field(default_factory=lambda: {"quick": 4, "thorough": 16})
    shrink_budget: Dict[str, int] = field(default_factory=lambda: {"quick": 120, "thorough": 600})
    exhaustive_note: str = ""
    setup: Optional[Callable[[], None]] = None  # run once per shard before cases


@dataclass
class Property:
    id: str
    level: str
    rule: str
    obligations: List[Obligation]
    assumptions: List[str] = field(default_factory=list)
    wanted_labels: List[str] = field(default_factory=list)
    fuzz: List[str] = field(default_factory=list)  # obligations additionally driven by atheris (thorough tier)
    fuzz_runs: int = 8000

    def obligation(self, name: str) -> Obligation:
        for o in self.obligations:
            if o.name == name:
                return o
        raise KeyError(name)


# ---------------------------------------------------------------------------
# running one case (shared by generation, enumeration and replay)
# ---------------------------------------------------------------------------

def execute_case(obl: Obligation, case: dict, ctx: Ctx) -> None:
    ctx._case = case
    ctx.stats.evaluations += 1
    try:
        obl.run_case(case, ctx)
    except _AbortCase:
        pass
    finally:
        ctx._case = None


# ---------------------------------------------------------------------------
# one shard of one obligation (runs inside a worker process)
# ---------------------------------------------------------------------------

def run_shard(prop: Property, obl: Obligation, tier: str, seed: int, shard: int,
              nshards: int, known: Iterable[str]) -> dict:
    stats = Stats()
    found: List[dict] = []
    seen = set(known)
    harness_error = None
    t0 = time.time()
    global _SHARD
    _SHARD = (shard, nshards)
    try:
        if obl.setup is not None:
            obl.setup()
        if obl.enumerate is not None:
            _run_enumeration(obl, tier, shard, nshards, stats, seen, found)
        if obl.strategy is not None:
            _run_hypothesis(prop, obl, tier, seed, shard, stats, seen, found)
    except HarnessError as e:
        harness_error = str(e)
    except Exception as e:  # noqa: BLE001
        harness_error = "".join(traceback.format_exception(e))[-4000:]
    out = stats.to_json()
    out.update(
        obligation=obl.name,
        shard=shard,
        violations=found,
        harness_error=harness_error,
        wall_s=time.time() - t0,
    )
    return out


def _run_enumeration(obl, tier, shard, nshards, stats, seen, found):
    ctx = Ctx(stats, excluded=seen, tier=tier)
    n = 0
    for i, case in enumerate(obl.enumerate(tier)):
        if i % nshards != shard:
            continue
        n += 1
        while True:
            try:
                execute_case(obl, case, ctx)
                break
            except Violation as v:
                found.append(_viol_record(obl, v, case))
                seen.add(v.signature)
                ctx.excluded.add(v.signature)
                stats.evaluations -= 1  # the re-run of the same case is not a new case
                if len(found) >= MAX_SIGNATURES_PER_RUN:
                    return
    stats.labels[f"enumerated:{obl.name}"] += n


def _viol_record(obl, v: Violation, case) -> dict:
    return {
        "obligation": obl.name,
        "signature": v.signature,
        "message": v.message,
        "details": v.details,
        "case": jsonable(case),
    }


def _run_hypothesis(prop, obl, tier, seed, shard, stats, seen, found):
    import hypothesis
    from hypothesis import HealthCheck, Phase, given, settings

    strat = obl.strategy(tier)
    budget = obl.examples[tier]
    shrink_budget = obl.shrink_budget[tier]

    for rnd in range(MAX_SIGNATURES_PER_RUN):
        state = {"target": None, "after": 0, "memo": {}, "last_fail": None, "dead": None}
        ctx = Ctx(stats, excluded=seen, tier=tier)

        def body(case):
            if state["dead"] is not None:
                return
            key = None
            if state["target"] is not None:
                key = canon(case)
                if key in state["memo"]:
                    state["last_fail"] = (case, state["memo"][key])
                    raise state["memo"][key]
                state["after"] += 1
                if state["after"] > shrink_budget:
                    return
            try:
                execute_case(obl, case, ctx)
            except Violation as v:
                if state["target"] is None:
                    state["target"] = v.signature
                    ctx.target = v.signature
                    key = canon(case)
                state["memo"][key] = v
                state["last_fail"] = (case, v)
                raise
            except (KeyboardInterrupt, SystemExit):
                raise
            except BaseException as e:  # harness fault, not a verdict
                state["dead"] = (
                    "unexpected exception in run_case (harness error)\ncase="
                    + canon(case)[:2000] + "\n"
                    + "".join(traceback.format_exception(e))[-3000:]
                )
                return

        test = given(strat)(body)
        test = settings(
            max_examples=budget,
            database=None,
            deadline=None,
            derandomize=False,
            report_multiple_bugs=False,
            suppress_health_check=list(HealthCheck),
            phases=[Phase.generate, Phase.shrink],
            print_blob=False,
        )(test)
        test = hypothesis.seed(derive_seed(seed, prop.id, obl.name, shard, rnd))(test)

        try:
            test()
        except Violation:
            pass
        except BaseException as e:  # Flaky etc.
            if state["dead"] is None and state["last_fail"] is None:
                raise HarnessError("hypothesis error: " + "".join(traceback.format_exception(e))[-3000:])
        if state["dead"] is not None:
            raise HarnessError(state["dead"])
        if state["last_fail"] is None:
            return  # clean round
        case, v = state["last_fail"]
        found.append(_viol_record(obl, v, case))
        seen.add(v.signature)
        # shrink-phase executions should not inflate the count of generated cases
        stats.labels["shrink_executions"] += state["after"]


# ---------------------------------------------------------------------------
# replay
# ---------------------------------------------------------------------------

def replay_case(prop: Property, rec: dict, tier="quick") -> Optional[Violation]:
    obl = prop.obligation(rec["obligation"])
    stats = Stats()
    ctx = Ctx(stats, tier=tier)
    ctx.target = rec.get("signature")  # a replay decides its own signature only
    if obl.setup is not None:
        obl.setup()
    try:
        execute_case(obl, rec["case"], ctx)
    except Violation as v:
        return v
    return None
