"""CLI: ./check CXX [--tier quick|thorough] [--replay file] [--seed N] [--only obligation]"""
from __future__ import annotations

import argparse
import glob
import importlib
import json
import multiprocessing as mp
import os
import subprocess
import sys
import time
import traceback

VERIF = os.path.dirname(os.path.dirname(os.path.abspath(__file__)))


def _early_env():
    os.environ.setdefault("OMP_NUM_THREADS", "1")
    os.environ.setdefault("MKL_NUM_THREADS", "1")
    os.environ.setdefault("WANDB_MODE", "disabled")
    os.environ.setdefault("WANDB_SILENT", "true")
    repo = os.environ.get("VERIF_REPO", "/repo")
    if sys.path[0] != repo:
        sys.path.insert(0, repo)
    if VERIF not in sys.path:
        sys.path.insert(1, VERIF)
    deps = os.path.join(VERIF, ".deps")
    if os.path.isdir(deps) and deps not in sys.path:
        sys.path.append(deps)


def repo_head() -> str:
    repo = os.environ.get("VERIF_REPO", "/repo")
    try:
        return subprocess.run(["git", "-C", repo, "rev-parse", "--short", "HEAD"],
                              capture_output=True, text=True, timeout=10).stdout.strip()
    except Exception:
        return "unknown"


def load_property(pid: str):
    mod = importlib.import_module(f"vp.props.{pid.lower()}")
    return mod.PROPERTY


def load_known(pid: str):
    path = os.path.join(VERIF, "known_findings.json")
    if not os.path.exists(path):
        return []
    with open(path) as f:
        entries = json.load(f)["findings"]
    return [e for e in entries if e.get("property") == pid]


def _worker(args):
    pid, oname, tier, seed, shard, nshards, known = args
    import warnings

    warnings.filterwarnings("ignore")
    try:
        import torch

        torch.set_num_threads(1)
    except Exception:
        pass
    from vp.core import engine

    prop = load_property(pid)
    obl = prop.obligation(oname)
    devnull = open(os.devnull, "w")
    old = sys.stdout, sys.stderr
    if not os.environ.get("VERIF_DEBUG"):
        sys.stdout = sys.stderr = devnull  # progress bars / prints of the code under test
    try:
        return engine.run_shard(prop, obl, tier, seed, shard, nshards, known)
    finally:
        sys.stdout, sys.stderr = old


def main(argv=None) -> int:
    _early_env()
    ap = argparse.ArgumentParser()
    ap.add_argument("property")
    ap.add_argument("--tier", default=os.environ.get("VERIF_TIER", "quick"), choices=["quick", "thorough"])
    ap.add_argument("--seed", type=int, default=None)
    ap.add_argument("--replay", default=None)
    ap.add_argument("--only", default=None, help="run one obligation only (debugging; evidence not written)")
    ap.add_argument("--no-evidence", action="store_true", help="do not rewrite evidence/CXX.json (sweeps, self-tests)")
    ap.add_argument("--jobs", type=int, default=int(os.environ.get("VERIF_JOBS", "16")))
    ap.add_argument("--scale", type=float, default=float(os.environ.get("VERIF_SCALE", "1")),
                    help="multiply example budgets (debugging)")
    a = ap.parse_args(argv)
    pid = a.property.upper()
    seed = a.seed if a.seed is not None else int(os.environ.get("VERIF_SEED", "1") or "1")

    try:
        import warnings

        warnings.filterwarnings("ignore")
        import torch

        torch.set_num_threads(1)
        from vp.core import engine

        prop = load_property(pid)
        # import agilerl before forking so the 7 s import cost is paid once
        # (deepspeed's import-time compiler probe writes noise to fd 2)
        _fd = os.dup(2)
        _dn = os.open(os.devnull, os.O_WRONLY)
        os.dup2(_dn, 2)
        try:
            import agilerl  # noqa: F401
            import agilerl.algorithms  # noqa: F401
            import agilerl.hpo.mutation  # noqa: F401
        finally:
            os.dup2(_fd, 2)
            os.close(_dn)
            os.close(_fd)
    except Exception:
        traceback.print_exc()
        print(f"HARNESS-ERROR property={pid} cannot import harness or agilerl")
        return 2

    known_entries = load_known(pid)
    known = {e["signature"]: e for e in known_entries if e.get("status") == "known"}
    extra = os.environ.get("VERIF_EXTRA_KNOWN")  # development aid only: explore past signatures not yet triaged
    if extra and os.path.exists(extra):
        for line in open(extra):
            if line.strip():
                known.setdefault(line.strip(), {"description": "(VERIF_EXTRA_KNOWN, development only)"})

    if a.replay:
        return _replay(engine, prop, a.replay, known, a.tier)

    t0 = time.time()
    tasks = []
    for obl in prop.obligations:
        if a.only and obl.name != a.only:
            continue
        if a.scale != 1:
            obl.examples = {k: max(1, int(v * a.scale)) for k, v in obl.examples.items()}
        n = obl.shards[a.tier]
        for s in range(n):
            tasks.append((pid, obl.name, a.tier, seed, s, n, sorted(known)))

    # saved replays first (seconds-long regression tier)
    replay_found = []
    for path in sorted(glob.glob(os.path.join(VERIF, "replays", pid, "*.json"))):
        with open(path) as f:
            rec = json.load(f)
        try:
            v = engine.replay_case(prop, rec, a.tier)
        except Exception:
            traceback.print_exc()
            print(f"HARNESS-ERROR property={pid} replay {path} raised")
            return 2
        if v is not None:
            replay_found.append({"obligation": rec["obligation"], "signature": v.signature,
                                 "message": v.message, "details": v.details, "case": rec["case"],
                                 "from_replay": os.path.relpath(path, VERIF)})

    ctx = mp.get_context("fork")
    results = []
    with ctx.Pool(processes=min(a.jobs, max(1, len(tasks))), maxtasksperchild=1) as pool:
        for r in pool.imap_unordered(_worker, tasks):
            results.append(r)
    results.sort(key=lambda r: (r["obligation"], r["shard"]))

    fuzz_summary = None
    if a.tier == "thorough" and getattr(prop, "fuzz", None) and not a.only:
        fuzz_summary, fuzz_viol = _run_fuzz(prop, seed, sorted(known), a.jobs)
        replay_found.extend(fuzz_viol)

    errors = [r for r in results if r["harness_error"]]
    if errors:
        for r in errors:
            print(f"HARNESS-ERROR property={pid} obligation={r['obligation']} shard={r['shard']}")
            print(r["harness_error"])
        return 2

    # ---- merge -----------------------------------------------------------
    from collections import Counter

    evaluations = 0
    labels, excluded = Counter(), Counter()
    keys = set()
    samples = []
    per_obl = {}
    violations = {}
    for v in replay_found:
        violations.setdefault(v["signature"], v)
    for r in results:
        evaluations += r["evaluations"]
        labels.update(r["labels"])
        excluded.update(r["excluded"])
        ks = set(r["obligation"] + ":" + k for k in r["nontrivial_keys"])
        keys |= ks
        po = per_obl.setdefault(r["obligation"], {"evaluations": 0, "nontrivial_evaluations": 0,
                                                  "distinct_nontrivial": set(), "wall_s": 0.0})
        po["evaluations"] += r["evaluations"]
        po["nontrivial_evaluations"] += r["nontrivial_evals"]
        po["distinct_nontrivial"] |= ks
        po["wall_s"] = round(po["wall_s"] + r["wall_s"], 2)
        for s in r["samples"]:
            if sum(1 for x in samples if x["obligation"] == r["obligation"]) < 2:
                samples.append({"obligation": r["obligation"], "case": s})
        for v in r["violations"]:
            cur = violations.get(v["signature"])
            if cur is None or len(json.dumps(v["case"])) < len(json.dumps(cur["case"])):
                violations[v["signature"]] = v
    for po in per_obl.values():
        po["distinct_nontrivial"] = len(po["distinct_nontrivial"])

    # ---- verdicts --------------------------------------------------------
    new = {s: v for s, v in violations.items() if s not in known}
    head = repo_head()
    os.makedirs(os.path.join(VERIF, "replays", pid), exist_ok=True)
    lines = []
    for sig, e in sorted(known.items()):
        n = excluded.get(sig, 0)
        lines.append(f"KNOWN-FINDING: property={pid} {sig} {e.get('description','')} (observed in {n} cases this run)")
    rc = 0
    new_paths = []
    for sig, v in sorted(new.items()):
        from vp.core.engine import h

        path = os.path.join("replays", pid, f"new-{h(sig)}.json")
        if v.get("from_replay"):
            path = v["from_replay"]
        else:
            with open(os.path.join(VERIF, path), "w") as f:
                json.dump({"property": pid, "obligation": v["obligation"], "signature": sig,
                           "message": v["message"], "details": v["details"], "case": v["case"],
                           "seed": seed, "tier": a.tier, "repo_head": head}, f, indent=1, sort_keys=True)
        new_paths.append(path)
        lines.append(f"VIOLATION property={pid} replay={path}")
        lines.append(f"  signature={sig}")
        lines.append(f"  {v['message'][:400]}")
        rc = 1
    for ln in lines:
        print(ln)

    wall = time.time() - t0
    if samples == [] and results:
        for r in results:
            if r["samples"]:
                samples.append({"obligation": r["obligation"], "case": r["samples"][0]})
                break
    evidence = {
        "property_id": pid,
        "tier": a.tier,
        "seed": seed,
        "level": prop.level,
        "coverage": {
            "evaluations": evaluations,
            "distinct_nontrivial": len(keys),
            "rule": prop.rule,
            "samples": samples[:12],
            "per_obligation": per_obl,
            "labels": dict(sorted(labels.items())),
            "excluded_known": {k: v for k, v in excluded.items() if k in known},
            "exhaustive": False,
            "missing_wanted_labels": [l for l in prop.wanted_labels if labels.get(l, 0) == 0],
        },
        "assumptions": prop.assumptions,
        "wall_s": round(wall, 2),
        "violations": len(new),
        "known_findings_observed": {k: excluded.get(k, 0) for k in known},
        "new_violation_signatures": sorted(new),
        "repo_head": head,
    }
    if fuzz_summary is not None:
        evidence["coverage"]["fuzz"] = fuzz_summary
    exh = [o.exhaustive_note for o in prop.obligations if o.exhaustive_note]
    if exh:
        evidence["coverage"]["exhaustive_subspaces"] = exh
    if not a.only and not a.no_evidence:
        os.makedirs(os.path.join(VERIF, "evidence"), exist_ok=True)
        with open(os.path.join(VERIF, "evidence", f"{pid}.json"), "w") as f:
            json.dump(evidence, f, indent=1, sort_keys=True)
    print(f"{pid} tier={a.tier} seed={seed} evaluations={evaluations} distinct_nontrivial={len(keys)} "
          f"violations={len(new)} known_observed={sum(1 for k in known if excluded.get(k,0))}/{len(known)} wall={wall:.1f}s")
    return rc


def _run_fuzz(prop, seed, known, jobs):
    """atheris (libFuzzer) campaigns over the same run_case, one process per (obligation, shard); budget in runs, not time"""
    import shutil
    import tempfile

    tmp = tempfile.mkdtemp(prefix="vpfuzz_")
    procs = []
    shards = max(1, min(jobs, 16) // max(1, len(prop.fuzz)))
    env = dict(os.environ, PYTHONPATH=os.environ.get("VERIF_REPO", "/repo") + ":" + VERIF)
    for oname in prop.fuzz:
        for sh in range(shards):
            out = os.path.join(tmp, f"{oname}_{sh}.json")
            corpus = os.path.join(tmp, f"corpus_{oname}_{sh}")
            os.makedirs(corpus)
            cmd = [sys.executable, "-m", "vp.fuzz", prop.id, oname, "--runs", str(prop.fuzz_runs), "--seed", str(seed * 100 + sh + 1),
                   "--out", out, "--corpus", corpus, "--known", ",".join(known)]
            procs.append((oname, sh, out, subprocess.Popen(cmd, cwd=VERIF, env=env, stdout=subprocess.DEVNULL, stderr=subprocess.DEVNULL)))
    summary = {"engine": "atheris/libFuzzer via hypothesis.fuzz_one_input", "campaigns": 0, "executions": 0, "nontrivial": 0,
               "status": [], "runs_per_campaign": prop.fuzz_runs}
    viol = []
    for oname, sh, out, p in procs:
        p.wait()
        try:
            with open(out) as f:
                r = json.load(f)
        except Exception:
            summary["status"].append(f"{oname}#{sh}: no result (inconclusive)")
            continue
        summary["campaigns"] += 1
        summary["executions"] += r.get("executions", 0)
        summary["nontrivial"] += r.get("nontrivial", 0)
        if r.get("status") != "ok":
            summary["status"].append(f"{oname}#{sh}: {r.get('status')}")
        if r.get("violation"):
            viol.append(r["violation"])
    shutil.rmtree(tmp, ignore_errors=True)
    return summary, viol


def _replay(engine, prop, path, known, tier) -> int:
    with open(path) as f:
        rec = json.load(f)
    v = engine.replay_case(prop, rec, tier)
    if v is None:
        print(f"replay {path}: passes")
        return 0
    if v.signature in known:
        print(f"KNOWN-FINDING: property={prop.id} {v.signature} {known[v.signature].get('description','')}")
        return 0
    print(f"VIOLATION property={prop.id} replay={path}")
    print(f"  signature={v.signature}")
    print(f"  {v.message}")
    print(json.dumps(v.details, indent=1)[:3000])
    return 1


if __name__ == "__main__":
    try:
        rc = main()
    except SystemExit:
        raise
    except BaseException:
        traceback.print_exc()
        rc = 2
    sys.stdout.flush()
    os._exit(rc)
