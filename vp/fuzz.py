"""Coverage-guided fuzzing of one obligation with atheris (libFuzzer) driving the SAME run_case through Hypothesis'
fuzz_one_input, so the oracle sits inside the fuzz target and a crash input is converted to a replay file.

    python -m vp.fuzz CXX <obligation> --runs N --seed S --out result.json [--corpus dir]

Only used by the thorough tier of the component properties whose control flow is pure Python (C09, C10, C11).
Exhausting the run budget is 'nothing found', never a violation; any problem with atheris itself is reported as
{"status": "unavailable"} and the caller falls back to Hypothesis alone.
"""
from __future__ import annotations

import argparse
import json
import os
import sys
import tempfile

VERIF = os.path.dirname(os.path.dirname(os.path.abspath(__file__)))


def main():
    ap = argparse.ArgumentParser()
    ap.add_argument("property")
    ap.add_argument("obligation")
    ap.add_argument("--runs", type=int, default=20000)
    ap.add_argument("--seed", type=int, default=1)
    ap.add_argument("--out", required=True)
    ap.add_argument("--corpus", default=None)
    ap.add_argument("--known", default="")
    a = ap.parse_args()
    result = {"status": "ok", "runs": a.runs, "seed": a.seed, "violation": None, "executions": 0, "nontrivial": 0}

    def finish(code=0):
        with open(a.out, "w") as f:
            json.dump(result, f)
        sys.stdout.flush()
        os._exit(code)

    repo = os.environ.get("VERIF_REPO", "/repo")
    sys.path.insert(0, repo)
    sys.path.insert(1, VERIF)
    sys.path.append(os.path.join(VERIF, ".deps"))
    try:
        import atheris
    except Exception as e:  # noqa: BLE001
        result["status"] = f"unavailable: {type(e).__name__}: {e}"
        finish(0)
    import warnings

    warnings.filterwarnings("ignore")
    import torch

    torch.set_num_threads(1)
    with atheris.instrument_imports(include=["agilerl.components"]):
        import agilerl.components.multi_agent_replay_buffer  # noqa: F401
        import agilerl.components.replay_buffer  # noqa: F401
        import agilerl.components.segment_tree  # noqa: F401
    from hypothesis import HealthCheck, given, settings

    from vp.core import engine
    from vp.run import load_property

    prop = load_property(a.property.upper())
    obl = prop.obligation(a.obligation)
    stats = engine.Stats()
    ctx = engine.Ctx(stats, excluded=[s for s in a.known.split(",") if s], tier="thorough")

    def body(case):
        try:
            engine.execute_case(obl, case, ctx)
        except engine.Violation as v:
            result["violation"] = {"obligation": obl.name, "signature": v.signature, "message": v.message, "details": v.details,
                                   "case": engine.jsonable(case)}
            result["executions"] = stats.evaluations
            result["nontrivial"] = len(stats.nontrivial)
            finish(0)

    test = settings(database=None, deadline=None, suppress_health_check=list(HealthCheck))(given(obl.strategy("thorough"))(body))
    corpus = a.corpus or tempfile.mkdtemp(prefix="vpfuzz_")
    argv = [sys.argv[0], corpus, f"-runs={a.runs}", f"-seed={a.seed}", "-max_len=4096", "-len_control=0", "-verbosity=0", "-print_final_stats=0"]
    import atexit  # noqa: F401  (atexit handlers do not run under libFuzzer: results are written explicitly)

    counter = {"n": 0}
    fuzz_one = test.hypothesis.fuzz_one_input

    def target(data):
        counter["n"] += 1
        fuzz_one(data)
        if counter["n"] >= a.runs:
            result["executions"] = stats.evaluations
            result["nontrivial"] = len(stats.nontrivial)
            result["labels"] = dict(stats.labels)
            finish(0)

    atheris.Setup(argv, target)
    atheris.Fuzz()
    result["executions"] = stats.evaluations
    result["nontrivial"] = len(stats.nontrivial)
    finish(0)


if __name__ == "__main__":
    main()
