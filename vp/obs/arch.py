"""Architecture descriptor of evolvable modules / networks and the per-method reference model of
architecture mutations (used by C03 clause 4 and by C04 to recognise a bounded no-op).

The descriptor is a plain JSON-able dict read from the public size attributes:

    mlp    {"kind","cls","hidden":[..],"b":{"layers":[lo,hi],"nodes":[lo,hi]}}
    cnn    {"kind","cls","block","in":[C,H,W],"channels","kernels","depths","strides","b":{"layers","channels"}}
    lstm   {"kind","cls","hidden","layers","b":{"hidden","layers"}}
    simba  {"kind","cls","hidden","blocks","b":{"hidden","blocks"}}
    resnet {"kind","cls","in","channels","blocks","kernel","stride","b":{"channels","blocks"}}
    multi  {"kind","cls","latent","b":{"latent"},"sub":{key: descriptor}}
    wrap   {"kind","cls","wrapped": descriptor}               (EvolvableDistribution)
    net    {"kind","cls","latent","b":{"latent"},"encoder": descriptor,"head": descriptor}

The reference model is written from the docstrings of the mutation methods (and, where a docstring is silent, from the
HARD LIMIT comment in the body); it returns the SET of architectures a call may produce:
the direct effect, the documented fall-back, or "unchanged" ONLY when a declared bound blocks the change.  Two
deliberate leniencies keep it sound: (a) a change that would land exactly ON a bound may be applied or refused (the
library mixes `<` and `<=`), (b) internal random choices (layer, amount, kernel, stride) range over every value the
method documents.
"""
from __future__ import annotations

import copy
import json
from typing import Any, Dict, List, Optional, Tuple

NODE_CHOICES = (16, 32, 64)       # np.random.choice([16, 32, 64]) in MLP / LSTM / SimBa node mutations
CHANNEL_CHOICES = (8, 16, 32)     # CNN / ResNet channel mutations
LATENT_CHOICES = (8, 16, 32)      # latent node mutations of networks and multi-input


def _i(x) -> int:
    return int(x)


def describe(m) -> Dict[str, Any]:
    from agilerl.modules.base import EvolvableWrapper
    from agilerl.modules.cnn import EvolvableCNN
    from agilerl.modules.lstm import EvolvableLSTM
    from agilerl.modules.mlp import EvolvableMLP
    from agilerl.modules.multi_input import EvolvableMultiInput
    from agilerl.modules.resnet import EvolvableResNet
    from agilerl.modules.simba import EvolvableSimBa
    from agilerl.networks.base import EvolvableNetwork

    cls = type(m).__name__
    if isinstance(m, EvolvableNetwork):
        return {"kind": "net", "cls": cls, "latent": _i(m.latent_dim),
                "b": {"latent": [_i(m.min_latent_dim), _i(m.max_latent_dim)]},
                "encoder": describe(m.encoder), "head": describe(m.head_net)}
    if isinstance(m, EvolvableWrapper):
        return {"kind": "wrap", "cls": cls, "wrapped": describe(m.wrapped)}
    if isinstance(m, EvolvableMLP):
        return {"kind": "mlp", "cls": cls, "hidden": [_i(h) for h in m.hidden_size],
                "b": {"layers": [_i(m.min_hidden_layers), _i(m.max_hidden_layers)],
                      "nodes": [_i(m.min_mlp_nodes), _i(m.max_mlp_nodes)]}}
    if isinstance(m, EvolvableCNN):
        sizes = m.mut_kernel_size.sizes
        depths = [(_i(s[0]) if isinstance(s, (tuple, list)) and len(s) == 3 else 1) for s in sizes]
        return {"kind": "cnn", "cls": cls, "block": m.block_type, "in": [_i(v) for v in m.input_shape],
                "channels": [_i(c) for c in m.channel_size], "kernels": [_i(k) for k in m.kernel_size],
                "depths": depths, "strides": [_i(s) for s in m.stride_size],
                "b": {"layers": [_i(m.min_hidden_layers), _i(m.max_hidden_layers)],
                      "channels": [_i(m.min_channel_size), _i(m.max_channel_size)]}}
    if isinstance(m, EvolvableLSTM):
        return {"kind": "lstm", "cls": cls, "hidden": _i(m.hidden_size), "layers": _i(m.num_layers),
                "b": {"hidden": [_i(m.min_hidden_size), _i(m.max_hidden_size)], "layers": [_i(m.min_layers), _i(m.max_layers)]}}
    if isinstance(m, EvolvableSimBa):
        return {"kind": "simba", "cls": cls, "hidden": _i(m.hidden_size), "blocks": _i(m.num_blocks),
                "b": {"hidden": [_i(m.min_mlp_nodes), _i(m.max_mlp_nodes)], "blocks": [_i(m.min_blocks), _i(m.max_blocks)]}}
    if isinstance(m, EvolvableResNet):
        return {"kind": "resnet", "cls": cls, "in": [_i(v) for v in m.input_shape], "channels": _i(m.channel_size),
                "blocks": _i(m.num_blocks), "kernel": _i(m.kernel_size), "stride": _i(m.stride_size),
                "b": {"channels": [_i(m.min_channel_size), _i(m.max_channel_size)], "blocks": [_i(m.min_blocks), _i(m.max_blocks)]}}
    if isinstance(m, EvolvableMultiInput):
        return {"kind": "multi", "cls": cls, "latent": _i(m.latent_dim),
                "b": {"latent": [_i(m.min_latent_dim), _i(m.max_latent_dim)]},
                "sub": {k: describe(v) for k, v in m.feature_net.modules().items()}}
    raise TypeError(f"no architecture descriptor for {cls}")


def canon(d) -> str:
    return json.dumps(d, sort_keys=True, separators=(",", ":"))


# ---------------------------------------------------------------------------------------------
# declared sizes and their bounds (C03 clause 2)
# ---------------------------------------------------------------------------------------------

def feature_maps(d) -> List[List[int]]:
    """[H, W] seen by each conv layer of a cnn descriptor as its INPUT, followed by the final output map
    (no padding: out = floor((in - k) / s) + 1)."""
    h, w = d["in"][-2:]
    maps = [[h, w]]
    for k, s in zip(d["kernels"], d["strides"]):
        h = (h - k) // s + 1 if h >= k else 0
        w = (w - k) // s + 1 if w >= k else 0
        maps.append([h, w])
    return maps


def bounded_sizes(d, path="") -> List[Tuple[str, Any, int, int]]:
    """[(name, value or list of values, lo, hi)] for every size the descriptor declares a range for."""
    k = d["kind"]
    p = path or d["cls"]
    out = []
    if k == "mlp":
        out.append((p + ".layers", len(d["hidden"]), *d["b"]["layers"]))
        out.append((p + ".nodes", list(d["hidden"]), *d["b"]["nodes"]))
    elif k == "cnn":
        out.append((p + ".layers", len(d["channels"]), *d["b"]["layers"]))
        out.append((p + ".channels", list(d["channels"]), *d["b"]["channels"]))
    elif k == "lstm":
        out.append((p + ".hidden", d["hidden"], *d["b"]["hidden"]))
        out.append((p + ".layers", d["layers"], *d["b"]["layers"]))
    elif k == "simba":
        out.append((p + ".hidden", d["hidden"], *d["b"]["hidden"]))
        out.append((p + ".blocks", d["blocks"], *d["b"]["blocks"]))
    elif k == "resnet":
        out.append((p + ".channels", d["channels"], *d["b"]["channels"]))
        out.append((p + ".blocks", d["blocks"], *d["b"]["blocks"]))
    elif k == "multi":
        out.append((p + ".latent", d["latent"], *d["b"]["latent"]))
        for key, sub in sorted(d["sub"].items()):
            out += bounded_sizes(sub, f"{p}.feature_net.{key}")
    elif k == "wrap":
        out += bounded_sizes(d["wrapped"], p)
    elif k == "net":
        out.append((p + ".latent", d["latent"], *d["b"]["latent"]))
        out += bounded_sizes(d["encoder"], p + ".encoder")
        out += bounded_sizes(d["head"], p + ".head_net")
    return out


def kernel_problems(d, path="") -> List[str]:
    """kernels that do not fit the feature map they are applied to (every cnn inside the descriptor)"""
    k = d["kind"]
    p = path or d["cls"]
    out = []
    if k == "cnn":
        maps = feature_maps(d)
        for i, ks in enumerate(d["kernels"]):
            if ks < 1 or ks > min(maps[i]):
                out.append(f"{p}.kernels[{i}]={ks} on a {maps[i]} feature map")
            if d["strides"][i] < 1:
                out.append(f"{p}.strides[{i}]={d['strides'][i]}")
    elif k == "multi":
        for key, sub in sorted(d["sub"].items()):
            out += kernel_problems(sub, f"{p}.feature_net.{key}")
    elif k == "wrap":
        out += kernel_problems(d["wrapped"], p)
    elif k == "net":
        out += kernel_problems(d["encoder"], p + ".encoder") + kernel_problems(d["head"], p + ".head_net")
    return out


def _moved_ok(b, a, lo, hi) -> bool:
    """inside stays inside; a size that is outside may stay or move toward the range, never past its far end"""
    if lo <= b <= hi:
        return lo <= a <= hi
    if b < lo:
        return b <= a <= hi
    return lo <= a <= b


def bound_violations(before, after) -> List[dict]:
    """compare the declared sizes of two descriptors of the same object (before / after one mutation)"""
    out = []
    sb = {n: (v, lo, hi) for n, v, lo, hi in bounded_sizes(before)}
    for n, va, lo, hi in bounded_sizes(after):
        if n not in sb:
            continue
        vb = sb[n][0]
        if isinstance(va, list):
            for i, a in enumerate(va):
                b = vb[min(i, len(vb) - 1)] if vb else a  # a new layer copies the last one
                if not _moved_ok(b, a, lo, hi):
                    out.append({"size": f"{n}[{i}]", "before": b, "after": a, "range": [lo, hi]})
        elif not _moved_ok(vb, va, lo, hi):
            out.append({"size": n, "before": vb, "after": va, "range": [lo, hi]})
    return out


def outside_range(d) -> List[str]:
    out = []
    for n, v, lo, hi in bounded_sizes(d):
        for x in (v if isinstance(v, list) else [v]):
            if not lo <= x <= hi:
                out.append(n)
    return sorted(set(out))


# ---------------------------------------------------------------------------------------------
# reference semantics of the mutation methods (C03 clause 4)
# ---------------------------------------------------------------------------------------------
# every function returns a list of (descriptor_after, tag) with tag in
#   direct | blocked | fallback:direct | fallback:blocked | same-value

def _grow(d, key, idx, n, hi, tagp=""):
    """add n to a size; blocked when the result would exceed hi (may go either way when it lands on hi)"""
    out = []
    cur = d[key] if idx is None else d[key][idx]
    new = cur + n
    if new <= hi:
        a = copy.deepcopy(d)
        if idx is None:
            a[key] = new
        else:
            a[key][idx] = new
        out.append((a, tagp + ("direct" if n else "same-value")))
    if new >= hi:
        out.append((copy.deepcopy(d), tagp + "blocked"))
    return out


def _shrink(d, key, idx, n, lo, tagp=""):
    out = []
    cur = d[key] if idx is None else d[key][idx]
    new = cur - n
    if new >= lo and new > 0:
        a = copy.deepcopy(d)
        if idx is None:
            a[key] = new
        else:
            a[key][idx] = new
        out.append((a, tagp + ("direct" if n else "same-value")))
    if new <= lo:
        out.append((copy.deepcopy(d), tagp + "blocked"))
    return out


def _layers_arg(n_layers, hidden_layer):
    if hidden_layer is None:
        return list(range(n_layers))
    return [min(int(hidden_layer), n_layers - 1)]


def _amounts(n, choices):
    return list(choices) if n is None else [int(n)]


def _mlp(d, method, args, tagp=""):
    H = d["hidden"]
    lo_l, hi_l = d["b"]["layers"]
    lo_n, hi_n = d["b"]["nodes"]
    out = []
    if method in ("add_node", "remove_node"):
        for h in _layers_arg(len(H), args.get("hidden_layer")):
            for n in _amounts(args.get("numb_new_nodes"), NODE_CHOICES):
                out += (_grow(d, "hidden", h, n, hi_n, tagp) if method == "add_node" else _shrink(d, "hidden", h, n, lo_n, tagp))
        return out
    if method == "add_layer":
        if len(H) < hi_l:
            a = copy.deepcopy(d)
            a["hidden"] = H + [H[-1]]
            return [(a, tagp + "direct")]
        return _mlp(d, "add_node", {}, tagp + "fallback:")
    if method == "remove_layer":
        if len(H) > lo_l:
            a = copy.deepcopy(d)
            a["hidden"] = H[:-1]
            return [(a, tagp + "direct")]
        return _mlp(d, "add_node", {}, tagp + "fallback:")
    raise KeyError(method)


def _scalar_net(d, method, args, size_key, depth_key, choices, tagp=""):
    """LSTM (hidden/layers), SimBa (hidden/blocks), ResNet (channels/blocks)"""
    lo_s, hi_s = d["b"][size_key]
    lo_d, hi_d = d["b"][depth_key]
    amount_arg = "numb_new_channels" if size_key == "channels" else "numb_new_nodes"
    grow = "add_channel" if size_key == "channels" else "add_node"
    shrink = "remove_channel" if size_key == "channels" else "remove_node"
    deeper = "add_layer" if depth_key == "layers" else "add_block"
    shallower = "remove_layer" if depth_key == "layers" else "remove_block"
    out = []
    if method == grow:
        for n in _amounts(args.get(amount_arg), choices):
            out += _grow(d, size_key, None, n, hi_s, tagp)
        return out
    if method == shrink:
        for n in _amounts(args.get(amount_arg), choices):
            out += _shrink(d, size_key, None, n, lo_s, tagp)
        return out
    if method == deeper:
        if d[depth_key] < hi_d:
            a = copy.deepcopy(d)
            a[depth_key] += 1
            return [(a, tagp + "direct")]
        return _scalar_net(d, grow, {}, size_key, depth_key, choices, tagp + "fallback:")
    if method == shallower:
        if d[depth_key] > lo_d:
            a = copy.deepcopy(d)
            a[depth_key] -= 1
            return [(a, tagp + "direct")]
        return _scalar_net(d, grow, {}, size_key, depth_key, choices, tagp + "fallback:")
    raise KeyError(method)


def max_kernels(d) -> List[int]:
    """documented rule (calc_max_kernel_sizes): a quarter of the layer's output map, clamped to 1..9"""
    maps = feature_maps(d)
    out = []
    for i in range(len(d["kernels"])):
        m = int(min(maps[i + 1]) * 0.25)
        out.append(1 if m <= 0 else min(m, 9))
    return out


def _cnn(d, method, args, tagp=""):
    C, K, S = d["channels"], d["kernels"], d["strides"]
    lo_l, hi_l = d["b"]["layers"]
    lo_c, hi_c = d["b"]["channels"]
    out = []
    if method in ("add_channel", "remove_channel"):
        for h in _layers_arg(len(C), args.get("hidden_layer")):
            for n in _amounts(args.get("numb_new_channels"), CHANNEL_CHOICES):
                out += (_grow(d, "channels", h, n, hi_c, tagp) if method == "add_channel" else _shrink(d, "channels", h, n, lo_c, tagp))
        return out
    if method == "add_layer":
        last = min(feature_maps(d)[-1])
        if len(C) < hi_l and last >= 3:
            for k in range(1, last + 1):
                for s in range(1, max(S[-1], 1) + 1):
                    a = copy.deepcopy(d)
                    a["channels"] = C + [C[-1]]
                    a["kernels"] = K + [k]
                    a["strides"] = S + [s]
                    a["depths"] = d["depths"] + [1]
                    out.append((a, tagp + "direct"))
        if len(C) >= hi_l or last < 12:  # layer limit, or the feature map is too small for a further kernel > 2
            out += _cnn(d, "add_channel", {}, tagp + "fallback:")
        return out
    if method == "remove_layer":
        if len(C) > lo_l:
            a = copy.deepcopy(d)
            for key in ("channels", "kernels", "strides", "depths"):
                a[key] = d[key][:-1]
            return [(a, tagp + "direct")]
        return _cnn(d, "add_channel", {}, tagp + "fallback:")
    if method == "change_kernel":
        if len(C) <= 1:
            # one layer: falls back on add_layer, or on add_channel where layer mutations are disabled (network encoders)
            return _cnn(d, "add_layer", {}, tagp + "fallback:") + _cnn(d, "add_channel", {}, tagp + "fallback:")
        hl = args.get("hidden_layer")
        layers = list(range(1, min(4, len(C)))) if hl is None else [int(hl)]
        maps = feature_maps(d)
        for h in layers:
            ks = args.get("kernel_size")
            cand = range(1, min(maps[h]) + 1) if ks is None else [int(ks[-1]) if isinstance(ks, (tuple, list)) else int(ks)]
            for k in cand:
                a = copy.deepcopy(d)
                a["kernels"][h] = k
                out.append((a, tagp + ("direct" if k != K[h] else "same-value")))
        return out
    raise KeyError(method)


def _latent(d, method, args, tagp=""):
    lo, hi = d["b"]["latent"]
    out = []
    for n in _amounts(args.get("numb_new_nodes"), LATENT_CHOICES):
        out += (_grow(d, "latent", None, n, hi, tagp) if method == "add_latent_node" else _shrink(d, "latent", None, n, lo, tagp))
    return out


def allowed_after(d, method: str, args: Optional[dict] = None) -> List[Tuple[dict, str]]:
    """all (descriptor, tag) the call `method(**args)` may leave behind when applied to descriptor d"""
    args = args or {}
    k = d["kind"]
    if k == "wrap":
        return [({**d, "wrapped": a}, t) for a, t in allowed_after(d["wrapped"], method, args)]
    if k == "net":
        if method in ("add_latent_node", "remove_latent_node"):
            return _latent(d, method, args)
        comp, rest = method.split(".", 1)
        key = {"encoder": "encoder", "head_net": "head"}[comp]
        return [({**d, key: a}, t) for a, t in allowed_after(d[key], rest, args)]
    if k == "multi":
        if method in ("add_latent_node", "remove_latent_node"):
            return _latent(d, method, args)
        _, key, rest = method.split(".", 2)  # feature_net.<key>.<method>
        return [({**d, "sub": {**d["sub"], key: a}}, t) for a, t in allowed_after(d["sub"][key], rest, args)]
    if k == "mlp":
        return _mlp(d, method, args)
    if k == "cnn":
        return _cnn(d, method, args)
    if k == "lstm":
        return _scalar_net(d, method, args, "hidden", "layers", NODE_CHOICES)
    if k == "simba":
        return _scalar_net(d, method, args, "hidden", "blocks", NODE_CHOICES)
    if k == "resnet":
        return _scalar_net(d, method, args, "channels", "blocks", CHANNEL_CHOICES)
    raise KeyError(k)


def classify(before, after, method, args) -> Tuple[Optional[str], List[str]]:
    """(tag of the candidate that equals `after`, or None) and the tags that were possible"""
    cands = allowed_after(before, method, args)
    want = canon(after)
    tags = [t for a, t in cands if canon(a) == want]
    order = ["direct", "fallback:direct", "fallback:fallback:direct", "same-value", "blocked", "fallback:blocked", "fallback:fallback:blocked"]
    tags.sort(key=lambda t: order.index(t) if t in order else 99)
    return (tags[0] if tags else None), sorted({t for _, t in cands})


def component_of(d, method: str, context: str = "standalone") -> Tuple[str, str]:
    """(class that owns the method, where that object sits): the discriminating feature of an effect failure, e.g.
    ('EvolvableDistribution', 'network_head'), ('EvolvableCNN', 'network_encoder'), ('EvolvableMLP', 'standalone').
    A wrapper owns the methods it forwards; everything below a network's encoder is 'network_encoder' (the network
    disables layer mutations there, recursively)."""
    k = d["kind"]
    if k == "net" and "." in method:
        comp, rest = method.split(".", 1)
        return component_of(d["encoder"] if comp == "encoder" else d["head"], rest,
                            "network_encoder" if comp == "encoder" else "network_head")
    if k == "multi" and "." in method:
        _, key, rest = method.split(".", 2)
        return component_of(d["sub"][key], rest, context if context != "standalone" else "multi_input_member")
    return d["cls"], context


def sub_descriptor(d, method: str):
    """descriptor of the component a (possibly dotted) method acts on, and the bare method name"""
    if d["kind"] == "wrap":
        return sub_descriptor(d["wrapped"], method)
    if d["kind"] == "net" and "." in method:
        comp, rest = method.split(".", 1)
        return sub_descriptor(d["encoder"] if comp == "encoder" else d["head"], rest)
    if d["kind"] == "multi" and "." in method:
        _, key, rest = method.split(".", 2)
        return sub_descriptor(d["sub"][key], rest)
    return d, method
