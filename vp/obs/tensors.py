"""Observers: every tensor a network computes with, agent snapshots and their diff."""
from __future__ import annotations

import copy
from typing import Any, Dict, List

import numpy as np
import torch


def all_tensors(net) -> Dict[str, torch.Tensor]:
    """name -> tensor for every tensor `net` computes with: parameters, buffers AND plain tensor attributes
    that tensordict's to_module leaves in sub-modules' __dict__ (parameters()/state_dict() do not see those)."""
    out = {}
    for mname, mod in net.named_modules():
        pre = mname + "." if mname else ""
        for k, p in mod._parameters.items():
            if p is not None:
                out[pre + k] = p
        for k, b in mod._buffers.items():
            if b is not None:
                out[pre + k] = b
        for k, v in mod.__dict__.items():
            if k.startswith("_"):
                continue
            if isinstance(v, torch.Tensor) and (pre + k) not in out:
                out[pre + k] = v
    return out


def clone_tensors(net) -> Dict[str, torch.Tensor]:
    return {k: v.detach().clone() for k, v in all_tensors(net).items()}


def tensors_equal(a: Dict[str, torch.Tensor], b: Dict[str, torch.Tensor], atol=0.0) -> List[str]:
    diffs = []
    for k in sorted(set(a) | set(b)):
        if k not in a or k not in b:
            diffs.append(f"{k}: only in {'first' if k in a else 'second'}")
            continue
        x, y = a[k], b[k]
        if x.shape != y.shape:
            diffs.append(f"{k}: shape {tuple(x.shape)} vs {tuple(y.shape)}")
        elif atol == 0.0:
            if not torch.equal(x, y):
                diffs.append(f"{k}: max|d|={float((x.double() - y.double()).abs().max()):.3g}")
        elif not torch.allclose(x.double(), y.double(), atol=atol, rtol=0):
            diffs.append(f"{k}: max|d|={float((x.double() - y.double()).abs().max()):.3g}")
    return diffs


def networks_of(agent) -> Dict[str, Any]:
    """attribute name -> EvolvableModule or list of them"""
    return dict(agent.evolvable_attributes(networks_only=True))


def optimizers_of(agent) -> Dict[str, Any]:
    from agilerl.algorithms.core.wrappers import OptimizerWrapper

    return {k: v for k, v in agent.evolvable_attributes().items() if isinstance(v, OptimizerWrapper)}


def flat_networks(agent) -> Dict[str, Any]:
    """'actor' / 'actors[0]' -> module"""
    out = {}
    for name, net in networks_of(agent).items():
        if isinstance(net, (list, tuple)):
            for i, n in enumerate(net):
                if isinstance(n, (list, tuple)):
                    for j, m in enumerate(n):
                        out[f"{name}[{i}][{j}]"] = m
                else:
                    out[f"{name}[{i}]"] = n
        elif isinstance(net, dict):
            for k, n in net.items():
                out[f"{name}[{k}]"] = n
        else:
            out[name] = net
    return out


def flat_optimizers(agent) -> Dict[str, torch.optim.Optimizer]:
    out = {}
    for name, w in optimizers_of(agent).items():
        opt = w.optimizer
        if isinstance(opt, (list, tuple)):
            for i, o in enumerate(opt):
                out[f"{name}[{i}]"] = o
        elif isinstance(opt, dict):
            for k, o in opt.items():
                out[f"{name}[{k}]"] = o
        else:
            out[name] = opt
    return out


def _plain(v):
    """value form of a hyper-parameter-like attribute, or None if not comparable by value"""
    if isinstance(v, (bool, int, float, str, type(None))):
        return v
    if isinstance(v, (np.integer, np.floating, np.bool_)):
        return v.item()
    if isinstance(v, np.ndarray):
        return ("ndarray", v.shape, v.astype(np.float64).round(12).tolist() if v.size <= 64 else float(v.astype(np.float64).sum()))
    if isinstance(v, torch.Tensor):
        return ("tensor", tuple(v.shape), v.detach().double().round(decimals=10).tolist() if v.numel() <= 64 else float(v.double().sum()))
    if isinstance(v, (list, tuple)):
        inner = [_plain(x) for x in v]
        if all(x is not _SKIP for x in inner):
            return inner
        return _SKIP
    if isinstance(v, dict):
        inner = {str(k): _plain(x) for k, x in v.items()}
        if all(x is not _SKIP for x in inner.values()):
            return inner
        return _SKIP
    return _SKIP


class _Skip:
    def __repr__(self):
        return "<skip>"


_SKIP = _Skip()

_IGNORED_ATTRS = {"index", "device", "accelerator", "registry", "mut"}


def public_values(agent) -> Dict[str, Any]:
    out = {}
    nets = set(agent.evolvable_attributes().keys())
    for k in dir(agent):
        if k.startswith("_") or k.endswith("_") or k in nets or k in _IGNORED_ATTRS:
            continue
        try:
            v = getattr(agent, k)
        except Exception:
            continue
        if callable(v):
            continue
        p = _plain(v)
        if p is not _SKIP:
            out[k] = p
    return out


def arch_of(net) -> Any:
    d = copy.deepcopy(net.init_dict)

    def strip(x):
        if isinstance(x, dict):
            return {k: strip(v) for k, v in x.items() if k != "device"}
        if isinstance(x, (list, tuple)):
            return [strip(v) for v in x]
        p = _plain(x)
        return repr(x) if p is _SKIP else p

    return strip(d)


def opt_snapshot(opt: torch.optim.Optimizer):
    groups = []
    state = []
    for g in opt.param_groups:
        groups.append({k: _plain(v) for k, v in g.items() if k != "params"})
        for p in g["params"]:
            s = opt.state.get(p, {})
            state.append({k: (v.detach().clone() if isinstance(v, torch.Tensor) else v) for k, v in s.items()})
    return {"cls": type(opt).__name__, "groups": groups, "state": state}


def registry_snapshot(agent):
    hp = agent.registry.hp_config
    out = {}
    if hp is not None:
        for name in hp.names():
            p = hp[name]
            out[name] = (p.min, p.max, p.shrink_factor, p.grow_factor, getattr(p.dtype, "__name__", str(p.dtype)), p.value)
    return out


def snapshot(agent) -> Dict[str, Any]:
    return {
        "values": public_values(agent),
        "arch": {k: arch_of(n) for k, n in flat_networks(agent).items()},
        "tensors": {k: clone_tensors(n) for k, n in flat_networks(agent).items()},
        "opts": {k: opt_snapshot(o) for k, o in flat_optimizers(agent).items()},
        "registry": registry_snapshot(agent),
    }


def diff(a: Dict[str, Any], b: Dict[str, Any], sections=("values", "arch", "tensors", "opts", "registry"), atol=0.0,
         skip_nets=()) -> List[str]:
    out = []
    if "values" in sections:
        for k in sorted(set(a["values"]) | set(b["values"])):
            if a["values"].get(k, "<absent>") != b["values"].get(k, "<absent>"):
                x, y = a["values"].get(k, "<absent>"), b["values"].get(k, "<absent>")
                if isinstance(x, float) and isinstance(y, float) and (x != x) and (y != y):
                    continue  # nan == nan
                out.append(f"values.{k}: {str(x)[:80]} vs {str(y)[:80]}")
    if "arch" in sections:
        for k in sorted(set(a["arch"]) | set(b["arch"])):
            if k in skip_nets:
                continue
            if a["arch"].get(k) != b["arch"].get(k):
                out.append(f"arch.{k} differs")
    if "tensors" in sections:
        for k in sorted(set(a["tensors"]) | set(b["tensors"])):
            if k in skip_nets:
                continue
            if k not in a["tensors"] or k not in b["tensors"]:
                out.append(f"tensors.{k}: network missing on one side")
                continue
            for d in tensors_equal(a["tensors"][k], b["tensors"][k], atol)[:3]:
                out.append(f"tensors.{k}.{d}")
    if "opts" in sections:
        for k in sorted(set(a["opts"]) | set(b["opts"])):
            if k not in a["opts"] or k not in b["opts"]:
                out.append(f"opts.{k}: optimizer missing on one side")
                continue
            x, y = a["opts"][k], b["opts"][k]
            if x["cls"] != y["cls"]:
                out.append(f"opts.{k}.cls {x['cls']} vs {y['cls']}")
            if x["groups"] != y["groups"]:
                out.append(f"opts.{k}.param_group settings differ: {x['groups']} vs {y['groups']}"[:300])
            if len(x["state"]) != len(y["state"]):
                out.append(f"opts.{k}.state: {len(x['state'])} vs {len(y['state'])} parameters")
            else:
                for i, (sx, sy) in enumerate(zip(x["state"], y["state"])):
                    if set(sx) != set(sy):
                        out.append(f"opts.{k}.state[{i}] keys {sorted(sx)} vs {sorted(sy)}")
                        break
                    bad = [kk for kk in sx if not _same(sx[kk], sy[kk], atol)]
                    if bad:
                        out.append(f"opts.{k}.state[{i}].{bad[0]} differs")
                        break
    if "registry" in sections:
        if a["registry"] != b["registry"]:
            out.append(f"registry: {a['registry']} vs {b['registry']}"[:300])
    return out


def _same(x, y, atol=0.0):
    if isinstance(x, torch.Tensor) and isinstance(y, torch.Tensor):
        if x.shape != y.shape:
            return False
        if atol == 0.0:
            return torch.equal(x, y)
        return torch.allclose(x.double(), y.double(), atol=atol, rtol=0)
    return x == y


def storage_ptrs(agent):
    """data_ptr sets of weights and optimizer state (supporting detail for aliasing reports)"""
    w = set()
    for n in flat_networks(agent).values():
        for t in all_tensors(n).values():
            w.add(t.data_ptr())
    s = set()
    for o in flat_optimizers(agent).values():
        for st in o.state.values():
            for v in st.values():
                if isinstance(v, torch.Tensor) and v.numel() > 0:
                    s.add(v.data_ptr())
    return w, s
