"""Small gymnasium spaces for the agent-level checks, and observation/action samplers."""
from __future__ import annotations

import numpy as np
from gymnasium import spaces

OBS_FAMILIES = ["vector", "image", "dict", "tuple", "discrete", "multidiscrete", "multibinary"]
ACT_KINDS_DISCRETE = ["discrete"]
ACT_KINDS_BOX = ["box", "box_asym", "box_perdim"]


def obs_space(family: str, variant: int = 0):
    v = variant % 3
    if family == "vector":
        return spaces.Box(-1.0, 1.0, (3 + v,), np.float32)
    if family == "image":
        return spaces.Box(0, 255, (2 + (v % 2), 8, 8), np.uint8) if v != 2 else spaces.Box(0.0, 1.0, (3, 8, 8), np.float32)
    if family == "dict":
        return spaces.Dict({"vec": spaces.Box(-1.0, 1.0, (3,), np.float32),
                            "img": spaces.Box(0, 255, (2, 8, 8), np.uint8),
                            **({"d": spaces.Discrete(3)} if v == 1 else {})})
    if family == "tuple":
        return spaces.Tuple((spaces.Box(-1.0, 1.0, (3,), np.float32), spaces.Box(0, 255, (2, 8, 8), np.uint8)))
    if family == "discrete":
        return spaces.Discrete(3 + v)
    if family == "multidiscrete":
        return spaces.MultiDiscrete([2, 3] + ([4] if v else []))
    if family == "multibinary":
        return spaces.MultiBinary(3 + v)
    if family == "sequence":
        return spaces.Box(-1.0, 1.0, (4, 3), np.float32)
    raise ValueError(family)


def act_space(kind: str, variant: int = 0):
    v = variant % 3
    if kind == "discrete":
        return spaces.Discrete(2 + v)
    if kind == "multidiscrete":
        return spaces.MultiDiscrete([2, 3] if v == 0 else [3, 2, 2])
    if kind == "multibinary":
        return spaces.MultiBinary(2 + v)
    if kind == "box":
        return spaces.Box(-1.0, 1.0, (1 + v,), np.float32)
    if kind == "box_asym":
        return spaces.Box(-0.5, 2.0, (2,), np.float32)
    if kind == "box_perdim":
        return spaces.Box(np.array([-1.0, 0.0, -3.0], np.float32), np.array([1.0, 0.5, -1.0], np.float32), dtype=np.float32)
    raise ValueError(kind)


def sample_obs(space, n, rng: np.random.Generator):
    """n=None -> single unbatched observation; else batch with leading dim n."""
    b = 1 if n is None else n
    if isinstance(space, spaces.Dict):
        d = {k: sample_obs(s, b, rng) for k, s in space.spaces.items()}
        return {k: v[0] for k, v in d.items()} if n is None else d
    if isinstance(space, spaces.Tuple):
        t = tuple(sample_obs(s, b, rng) for s in space.spaces)
        return tuple(v[0] for v in t) if n is None else t
    if isinstance(space, spaces.Discrete):
        x = rng.integers(0, space.n, size=(b,)).astype(np.int64)
    elif isinstance(space, spaces.MultiDiscrete):
        x = np.stack([rng.integers(0, k, size=(b,)) for k in space.nvec], axis=1).astype(np.int64)
    elif isinstance(space, spaces.MultiBinary):
        x = rng.integers(0, 2, size=(b, space.n)).astype(np.int8)
    else:
        lo = np.where(np.isfinite(space.low), space.low, -3.0).astype(np.float64)
        hi = np.where(np.isfinite(space.high), space.high, 3.0).astype(np.float64)
        x = rng.uniform(0, 1, size=(b, *space.shape)) * (hi - lo) + lo
        x = np.rint(x).astype(space.dtype) if np.issubdtype(space.dtype, np.integer) else x.astype(space.dtype)
    return x[0] if n is None else x


def sample_action(space, n, rng):
    return sample_obs(space, n, rng)
