"""Clone-and-mutate chains over evolvable modules and networks (shared by C03 and C04).

A case is {"cfg": <what to build>, "seed": int, "amounts": [ints], "steps": [step, ...]} where a step is either
{"m": i, "hl": int|None, "n": j|None, "k": int|None, "seed": s}   (random walks: method = sorted(advertised)[i mod len])
or {"name": method, "args": {...}, "seed": s}                       (exhaustive enumeration: explicit arguments).

`run_chain(case, ctx, "C03"|"C04")` executes the chain on the real code exactly the way `Mutations.architecture_mutate`
does (m = m.clone(); read m.mutation_methods from that clone; call ONE method) and applies the clauses of the property.
"""
from __future__ import annotations

import copy
import inspect
import itertools
from typing import Any, Dict, List, Optional

import numpy as np
import torch
from hypothesis import strategies as st

from vp.core.engine import HarnessError, site_of
from vp.obs import arch as A

NET_CLASSES = ["QNetwork", "RainbowQNetwork", "ContinuousQNetwork", "ValueNetwork", "DeterministicActor", "StochasticActor"]
MODULE_KINDS = ["mlp", "cnn2d", "cnn3d", "lstm", "simba", "resnet", "multi"]


# ---------------------------------------------------------------------------------------------
# building
# ---------------------------------------------------------------------------------------------

def make_space(s):
    from gymnasium import spaces

    t = s["type"]
    if t == "vector":
        return spaces.Box(-1.0, 1.0, (s["n"],), np.float32)
    if t == "image":
        return spaces.Box(0.0, 1.0, tuple(s["shape"]), np.float32)
    if t == "sequence":
        return spaces.Box(-1.0, 1.0, tuple(s["shape"]), np.float32)
    if t == "discrete":
        return spaces.Discrete(s["n"])
    if t == "box":
        return spaces.Box(-1.0, 1.0, (s["n"],), np.float32) if not s.get("asym") else spaces.Box(-0.5, 2.0, (s["n"],), np.float32)
    if t == "multidiscrete":
        return spaces.MultiDiscrete(s["nvec"])
    if t == "multibinary":
        return spaces.MultiBinary(s["n"])
    if t in ("dict", "tuple"):
        members = []
        if s.get("vec"):
            members.append(("vec", spaces.Box(-1.0, 1.0, (s["vec"],), np.float32)))
        if s.get("img"):
            members.append(("img", spaces.Box(0.0, 1.0, tuple(s["img"]), np.float32)))
        if s.get("img2"):  # a second image member: two EvolvableCNN encoders built from the same cnn_config
            members.append(("img2", spaces.Box(0.0, 1.0, tuple(s["img2"]), np.float32)))
        if s.get("seq"):
            members.append(("seq", spaces.Box(-1.0, 1.0, tuple(s["seq"]), np.float32)))
        if s.get("disc"):
            members.append(("d", spaces.Discrete(s["disc"])))
        return spaces.Dict(dict(members)) if t == "dict" else spaces.Tuple(tuple(sp for _, sp in members))
    raise HarnessError(f"unknown space spec {s}")


def sample_space(space, B, rng, depth=None):
    """a valid (already preprocessed, as the algorithms hand it to their networks) observation batch"""
    from gymnasium import spaces

    if isinstance(space, spaces.Dict):
        return {k: sample_space(v, B, rng, depth) for k, v in space.spaces.items()}
    if isinstance(space, spaces.Tuple):
        return tuple(sample_space(v, B, rng, depth) for v in space.spaces)
    if isinstance(space, spaces.Discrete):
        idx = rng.integers(0, space.n, size=(B,))
        return torch.nn.functional.one_hot(torch.as_tensor(idx), int(space.n)).float()
    if isinstance(space, spaces.MultiDiscrete):
        return torch.cat([torch.nn.functional.one_hot(torch.as_tensor(rng.integers(0, n, size=(B,))), int(n)).float()
                          for n in space.nvec], dim=1)
    if isinstance(space, spaces.MultiBinary):
        return torch.as_tensor(rng.integers(0, 2, size=(B, space.n))).float()
    shape = tuple(space.shape)
    lo = np.where(np.isfinite(space.low), space.low, -2.0)
    hi = np.where(np.isfinite(space.high), space.high, 2.0)
    if depth is not None and len(shape) == 3:
        x = rng.random((B, shape[0], depth, shape[1], shape[2]))
        return torch.as_tensor(x, dtype=torch.float32)
    x = rng.random((B, *shape)) * (hi - lo) + lo
    return torch.as_tensor(x, dtype=torch.float32)


class Built:
    """the object under test plus how to feed it and what it declares to return"""

    def __init__(self, module, label, make_args, out_shapes):
        self.module = module
        self.label = label
        self.make_args = make_args      # (B, rng) -> tuple of positional forward args
        self.out_shapes = out_shapes    # B -> list of expected shapes (None = output may be None)


def build(cfg) -> Built:
    from gymnasium import spaces

    from agilerl.modules import EvolvableCNN, EvolvableLSTM, EvolvableMLP, EvolvableMultiInput, EvolvableResNet, EvolvableSimBa

    kind = cfg["kind"]
    kw = copy.deepcopy(cfg.get("kw", {}))
    if kind == "mlp":
        m = EvolvableMLP(**kw)
        n_in, n_out = kw["num_inputs"], kw["num_outputs"]
        return Built(m, "EvolvableMLP", lambda B, rng: (torch.as_tensor(rng.standard_normal((B, n_in)), dtype=torch.float32),),
                     lambda B: [(B, n_out)])
    if kind == "simba":
        m = EvolvableSimBa(**kw)
        n_in, n_out = kw["num_inputs"], kw["num_outputs"]
        return Built(m, "EvolvableSimBa", lambda B, rng: (torch.as_tensor(rng.standard_normal((B, n_in)), dtype=torch.float32),),
                     lambda B: [(B, n_out)])
    if kind == "lstm":
        m = EvolvableLSTM(**kw)
        n_in, n_out, T = kw["input_size"], kw["num_outputs"], cfg.get("T", 3)
        return Built(m, "EvolvableLSTM", lambda B, rng: (torch.as_tensor(rng.standard_normal((B, T, n_in)), dtype=torch.float32),),
                     lambda B: [(B, n_out)])
    if kind == "cnn2d":
        m = EvolvableCNN(**kw)
        shp, n_out = kw["input_shape"], kw["num_outputs"]
        return Built(m, "EvolvableCNN/Conv2d", lambda B, rng: (torch.as_tensor(rng.random((B, *shp)), dtype=torch.float32),),
                     lambda B: [(B, n_out)])
    if kind == "cnn3d":
        shp, n_out, D = kw["input_shape"], kw["num_outputs"], cfg["depth"]
        m = EvolvableCNN(block_type="Conv3d", sample_input=torch.zeros(1, shp[0], D, shp[1], shp[2]), **kw)
        return Built(m, "EvolvableCNN/Conv3d",
                     lambda B, rng: (torch.as_tensor(rng.random((B, shp[0], D, shp[1], shp[2])), dtype=torch.float32),),
                     lambda B: [(B, n_out)])
    if kind == "resnet":
        m = EvolvableResNet(**kw)
        shp, n_out = kw["input_shape"], kw["num_outputs"]
        return Built(m, "EvolvableResNet", lambda B, rng: (torch.as_tensor(rng.random((B, *shp)), dtype=torch.float32),),
                     lambda B: [(B, n_out)])
    if kind == "multi":
        space = make_space(cfg["space"])
        m = EvolvableMultiInput(observation_space=space, **kw)
        n_out = kw["num_outputs"]
        lab = "EvolvableMultiInput/" + cfg["space"]["type"] + ("+vector_mlp" if kw.get("vector_space_mlp") else "") + \
              ("+recurrent" if kw.get("recurrent") else "")
        return Built(m, lab, lambda B, rng: (sample_space(space, B, rng),), lambda B: [(B, n_out)])
    if kind == "net":
        import agilerl.networks.actors as actors
        import agilerl.networks.q_networks as qn
        import agilerl.networks.value_networks as vn

        name = cfg["cls"]
        cls = getattr(qn, name, None) or getattr(vn, name, None) or getattr(actors, name)
        obs = make_space(cfg["obs"])
        act = make_space(cfg["act"]) if cfg.get("act") else None
        depth = cfg.get("depth")
        if depth is not None:  # multi-agent image network: Conv3d encoder needs a sample input (as MADDPG/IPPO provide it)
            shp = cfg["obs"]["shape"]
            kw.setdefault("encoder_config", {})
            kw["encoder_config"]["sample_input"] = torch.zeros(1, shp[0], depth, shp[1], shp[2])
        if name == "RainbowQNetwork":
            kw["support"] = torch.linspace(-1.0, 1.0, kw.get("num_atoms", 51))
        if name != "ValueNetwork":
            kw["action_space"] = act
        m = cls(obs, **kw)

        def make_args(B, rng):
            o = sample_space(obs, B, rng, depth)
            if name == "ContinuousQNetwork":
                return (o, torch.as_tensor(rng.uniform(-1, 1, size=(B, spaces.flatdim(act))), dtype=torch.float32))
            return (o,)

        def out_shapes(B):
            if name in ("QNetwork", "RainbowQNetwork"):
                return [(B, spaces.flatdim(act))]
            if name in ("ContinuousQNetwork", "ValueNetwork"):
                return [(B, 1)]
            if name == "DeterministicActor":
                return [(B, spaces.flatdim(act))]
            a_shape = (B,) if isinstance(act, spaces.Discrete) else (B, *act.shape)
            return [a_shape, (B,), (B,)]

        enc = type(m.encoder).__name__
        lab = f"{name}/{cfg['obs']['type']}" + ("+simba" if kw.get("simba") else "") + ("+recurrent" if kw.get("recurrent") else "") + \
              ("+n_agents" if kw.get("n_agents") else "") + (f"+{kw['encoder_cls']}" if kw.get("encoder_cls") else "")
        b = Built(m, lab, make_args, out_shapes)
        b.encoder = enc
        return b
    raise HarnessError(f"unknown kind {kind}")


# ---------------------------------------------------------------------------------------------
# observation helpers
# ---------------------------------------------------------------------------------------------

def renoise(m, seed, scale=0.4):
    """overwrite every parameter (and BatchNorm running statistic) by seeded noise: stands for training, makes preservation observable"""
    g = torch.Generator().manual_seed(int(seed))
    with torch.no_grad():
        for _, p in sorted(m.named_parameters(), key=lambda kv: kv[0]):
            p.data = torch.randn(p.shape, generator=g) * scale
        for k, b in sorted(m.named_buffers(), key=lambda kv: kv[0]):  # training also moves BatchNorm's running statistics
            if k.endswith("running_mean"):
                b.copy_(torch.randn(b.shape, generator=g) * scale)
            elif k.endswith("running_var"):
                b.copy_(0.5 + torch.rand(b.shape, generator=g))


def _flat_out(o):
    if isinstance(o, (tuple, list)):
        return [x for x in o]
    return [o]


def _call(m, args, seed):
    torch.manual_seed(seed)
    for layer in torch.nn.Module.modules(m):  # noisy layers: the same seed draws the same noise for the same architecture
        if type(layer).__name__ == "NoisyLinear":
            layer.reset_noise()
    a = tuple(dict(x) if isinstance(x, dict) else x for x in args)
    with torch.no_grad():
        return _flat_out(m(*a))


def outputs(m, batches, seed=1234):
    """[(mode, batch index, [tensors])] - eval mode on every batch, train mode on batches of >= 2 rows.
    Pure: buffers touched by train-mode forwards (BatchNorm statistics, noise) are restored."""
    bufs = {k: v.detach().clone() for k, v in m.named_buffers()}
    was_training = m.training
    out = []
    try:
        m.eval()
        for i, args in enumerate(batches):
            out.append(("eval", i, _call(m, args, seed + i)))
        m.train()
        for i, args in enumerate(batches):
            if _rows(args) >= 2:
                out.append(("train", i, _call(m, args, seed + i)))
    finally:
        m.train(was_training)
        with torch.no_grad():
            for k, v in m.named_buffers():
                if k in bufs and v.shape == bufs[k].shape:
                    v.copy_(bufs[k])
    return out


def _rows(args):
    x = args[0]
    if isinstance(x, dict):
        x = next(iter(x.values()))
    if isinstance(x, tuple):
        x = x[0]
    return int(x.shape[0])


def first_difference(oa, ob):
    """None when the two `outputs` results are identical (bit-equal tensors, same None pattern)"""
    if len(oa) != len(ob):
        return {"what": "different number of forward results"}
    for (mode, i, ta), (_, _, tb) in zip(oa, ob):
        if len(ta) != len(tb):
            return {"mode": mode, "batch": i, "what": "different number of outputs"}
        for j, (x, y) in enumerate(zip(ta, tb)):
            if x is None or y is None:
                if (x is None) != (y is None):
                    return {"mode": mode, "batch": i, "output": j, "what": "None vs tensor"}
                continue
            if x.shape != y.shape:
                return {"mode": mode, "batch": i, "output": j, "what": "shape", "a": list(x.shape), "b": list(y.shape)}
            if not torch.equal(x, y):
                d = (x.double() - y.double()).abs()
                return {"mode": mode, "batch": i, "output": j, "what": "values", "max_abs_diff": float(d.max()) if d.numel() else 0.0}
    return None


def resolve_step(step, c, desc, amounts):
    """-> (method name, kwargs) for a clone c with descriptor desc; total: every drawn step maps onto a valid call"""
    methods = sorted(c.mutation_methods)
    if "name" in step:
        if step["name"] not in methods:
            return None, None
        return step["name"], dict(step.get("args") or {})
    name = methods[step["m"] % len(methods)]
    params = inspect.signature(getattr(c, name)).parameters
    sub, bare = A.sub_descriptor(desc, name)
    kwargs = {}
    if "hidden_layer" in params and step.get("hl") is not None:
        hl = int(step["hl"])
        if bare == "change_kernel":
            n_layers = len(sub["channels"])
            hl = 1 + hl % (n_layers - 1) if n_layers > 1 else None  # the library itself never picks layer 0
        if hl is not None:
            kwargs["hidden_layer"] = hl
    if step.get("n") is not None:
        for p in ("numb_new_nodes", "numb_new_channels"):
            if p in params:
                kwargs[p] = int(amounts[step["n"] % len(amounts)])
    if "kernel_size" in params and step.get("k") is not None and sub["kind"] == "cnn" and len(sub["channels"]) > 1:
        h = kwargs.get("hidden_layer")
        if h is not None:  # an explicit kernel is only meaningful together with the layer it was computed for
            mk = A.max_kernels(sub)[h]
            kwargs["kernel_size"] = 1 + int(step["k"]) % mk
    return name, kwargs


# ---------------------------------------------------------------------------------------------
# the chain
# ---------------------------------------------------------------------------------------------

def _param_kind(name):
    n = name.lower()
    if "norm" in n:
        return "norm"
    if "conv" in n:
        return "conv"
    if "lstm" in n and ("weight_ih" in n or "weight_hh" in n or "bias_ih" in n or "bias_hh" in n):
        return "lstm"
    if "_mu" in n or "_sigma" in n:
        return "noisy_linear"
    if "log_std" in n:
        return "log_std"
    return "linear"


def check_preserved(ctx, before: Dict[str, torch.Tensor], c, top, method, kwargs, step_i):
    """C04 clause 1. Returns (n_resized, grown?, shrunk?)."""
    resized = grown = shrunk = 0
    for name, p in c.named_parameters():
        if name not in before:
            continue
        old, new = before[name], p.detach()
        if old.dim() != new.dim():
            ctx.fail(f"C04/preserved/rank_changed/{_param_kind(name)}", "a parameter kept its name but changed its number of dimensions",
                     parameter=name, before=list(old.shape), after=list(new.shape), method=method, args=kwargs, step=step_i)
            continue
        same_shape = old.shape == new.shape
        if not same_shape:
            resized += 1
            grown += any(n > o for o, n in zip(old.shape, new.shape))
            shrunk += any(n < o for o, n in zip(old.shape, new.shape))
        sl = tuple(slice(0, min(o, n)) for o, n in zip(old.shape, new.shape))
        if torch.equal(old[sl], new[sl]):
            continue
        kind = _param_kind(name)
        if kind == "norm" and not same_shape:
            # preserve_parameters deliberately skips names containing "norm" when the size changes: own class, so that it
            # can never hide a slice-copy error in linear / conv / recurrent weights
            ctx.fail("C04/preserved/norm_parameters_reset_on_resize",
                     "a normalisation layer that exists before and after a resize lost its learned scale/shift on the common index range",
                     parameter=name, before=list(old.shape), after=list(new.shape), method=method, args=kwargs, step=step_i, top=top)
            continue
        # which dims of the common range were lost?
        lost_dims = []
        for dim in range(old.dim()):
            idx = [slice(0, 1)] * old.dim()
            idx[dim] = sl[dim]
            if not torch.equal(old[tuple(idx)], new[tuple(idx)]):
                lost_dims.append(dim)
        what = "same_shape_tensor_changed" if same_shape else "common_slice_not_kept"
        ctx.fail(f"C04/preserved/{what}/{kind}",
                 "a weight present before and after the mutation differs on the index range the two shapes have in common",
                 parameter=name, before=list(old.shape), after=list(new.shape), method=method, args=kwargs, step=step_i, top=top,
                 mismatching_fraction=float((old[sl] != new[sl]).float().mean()), dims_with_loss_along_first_line=lost_dims)
    return resized, grown, shrunk


def run_chain(case, ctx, P):
    """P = 'C03' or 'C04' selects the clauses; the chain itself is identical."""
    cfg = case["cfg"]
    try:
        torch.manual_seed(case["seed"])
        np.random.seed(case["seed"] % (2 ** 32))
        built = build(cfg)
    except Exception as e:  # building the start network is a precondition, not a promise of C03/C04
        ctx.label(f"setup-failed:{type(e).__name__}")
        return
    built.cfg = cfg
    m = built.module
    top = built.label
    ctx.label(f"class={top}")
    if hasattr(built, "encoder"):
        ctx.label(f"encoder={built.encoder}")
    ctx.label(f"bounds={cfg.get('bounds', 'tight')}")
    rng = np.random.default_rng(case["seed"])
    nb = 3 + case["seed"] % 3
    batches = [built.make_args(B, rng) for B in (1, 2, nb)]
    amounts = case.get("amounts") or [8]
    renoise(m, case["seed"])
    d0 = A.describe(m)
    if A.outside_range(d0):
        ctx.label("starts-outside-declared-range")

    events = []          # (method, tag) per executed step
    resized_total = grown_total = shrunk_total = 0
    try:  # a start network that cannot process a valid batch is outside the domain of both properties (they are about mutations)
        outputs(m, batches)
    except Exception as e:
        ctx.label(f"setup-failed:initial-forward:{type(e).__name__}")
        return
    if P == "C03":
        _declared_bounds_honoured(ctx, m, cfg, top)
        _valid_and_rebuildable(ctx, built, m, batches, top, step_i=-1, method=None, kwargs=None)

    for i, step in enumerate(case["steps"]):
        # -- clone (what Mutations.architecture_mutate does first; both properties quantify over clone-and-mutate chains.
        #    Mutating ONE object several times without a clone in between is outside their domain - and not robust on the
        #    unchanged tree: the dotted wrappers installed at construction keep pointing at sub-modules that a latent mutation
        #    has replaced - so it is deliberately not generated, see DESIGN 9.5 round 3 / C04c)
        if P == "C03":
            with ctx.promised("C03/clone", top=top, step=i):
                c = m.clone()
        else:
            try:
                c = m.clone()
            except Exception as e:
                ctx.label(f"chain-stopped:clone:{type(e).__name__}")
                break
        adv_m, adv_c = set(m.mutation_methods), set(c.mutation_methods)
        if adv_c < adv_m:
            ctx.label("clone-advertises-fewer-methods-than-mutated-original")
        elif adv_c != adv_m:
            ctx.label("clone-advertises-other-methods")
        if P == "C04":
            diff = first_difference(outputs(m, batches), outputs(c, batches))
            if diff is not None:
                ctx.fail("C04/clone/outputs_differ", "clone() does not reproduce the outputs of the network it was cloned from",
                         top=top, step=i, **diff)
        if not adv_c:
            ctx.label("no-mutation-methods")
            break
        before = A.describe(c)
        name, kwargs = resolve_step(step, c, before, amounts)
        if name is None:
            ctx.label("enumerated-method-not-advertised")
            continue
        params_before = {k: v.detach().clone() for k, v in c.named_parameters()}
        out_before = outputs(c, batches) if P == "C04" else None
        bufs_before = {k: v.detach().clone() for k, v in c.named_buffers()} if P == "C04" else None
        bare = name.split(".")[-1]
        # -- optionally a REJECTED call first: an unknown keyword makes Python refuse the call before the method body runs, so
        #    on a healthy tree the object is untouched and the real mutation below must behave as if nothing had happened
        if step.get("probe"):
            try:
                getattr(c, name)(**dict(kwargs, vp_no_such_argument=1))
                ctx.label("rejected-call-probe:accepted?!")
            except TypeError:
                ctx.label("rejected-call-probe")
            except Exception as e:
                ctx.label(f"rejected-call-probe:{type(e).__name__}")
        # -- the mutation --------------------------------------------------------------------------
        np.random.seed(step.get("seed", 0))
        torch.manual_seed(step.get("seed", 0))
        if P == "C03":
            with ctx.promised(f"C03/mutate/{bare}", top=top, method=name, args=kwargs, step=i, arch_before=before):
                getattr(c, name)(**kwargs)
        else:
            try:
                getattr(c, name)(**kwargs)
            except Exception as e:
                site = site_of(e)
                if "preserve_parameters" in site:  # the weight carry-over itself failed: that is this property's mechanism
                    ctx.abort(f"C04/preserved/copy_raises/{type(e).__name__}@{site}", f"{type(e).__name__}: {str(e)[:300]}",
                              top=top, method=name, args=kwargs, step=i, arch_before=before)
                ctx.label(f"chain-stopped:mutate:{type(e).__name__}")
                break
        after = A.describe(c)
        tag, possible = A.classify(before, after, name, kwargs)
        unchanged = A.canon(before) == A.canon(after)
        events.append((bare, tag or "unexpected"))
        ctx.label(f"method={bare}")
        ctx.label(f"effect={tag or ('none' if unchanged else 'unexpected')}")
        ctx.label("args=explicit" if kwargs else "args=internal-draw")

        if P == "C03":
            comp = "/".join(A.component_of(before, name))
            # clause 4: advertised => effective
            if tag is None:
                if unchanged:
                    ctx.fail(f"C03/effective/no_effect/{comp}",
                             "an advertised mutation method left the architecture unchanged although no declared bound stops it",
                             top=top, method=name, args=kwargs, step=i, arch=before, possible=possible)
                else:
                    ctx.fail(f"C03/effective/unexpected_architecture/{comp}",
                             "the architecture after the call is none of those the method documents (direct effect, fall-back, bounded no-op)",
                             top=top, method=name, args=kwargs, step=i, arch_before=before, arch_after=after, possible=possible)
            # clause 2: sizes stay inside [min, max]
            for bv in A.bound_violations(before, after):
                ctx.fail(f"C03/bounds/{_size_class(bv['size'])}",
                         "a size left its declared range (or moved further away from it)", top=top, method=name, args=kwargs, step=i, **bv)
            kp = A.kernel_problems(after)
            if kp:
                ctx.fail("C03/bounds/kernel_exceeds_feature_map", "; ".join(kp), top=top, method=name, args=kwargs, step=i, arch=after)
            if A.canon(_bounds_only(before)) != A.canon(_bounds_only(after)):
                ctx.fail("C03/bounds/declared_range_changed", "the declared minimum/maximum changed during a mutation",
                         top=top, method=name, step=i, before=_bounds_only(before), after=_bounds_only(after))
            # clauses 1 and 3
            _valid_and_rebuildable(ctx, built, c, batches, top, step_i=i, method=name, kwargs=kwargs)
        else:
            r, g, s = check_preserved(ctx, params_before, c, top, name, kwargs, i)
            resized_total += r
            grown_total += g
            shrunk_total += s
            if unchanged:
                diff = first_difference(out_before, outputs(c, batches))
                if diff is not None:
                    cause = _buffer_cause(c, bufs_before, out_before, batches)
                    if cause:
                        # parameters are carried over but buffers are not: own class, so it cannot hide a weight-copy error
                        ctx.fail(f"C04/noop/function_changed/buffers_not_carried_over/{cause}",
                                 "the mutation left the architecture unchanged, all parameters are identical, but the re-created network "
                                 "computes other outputs because its buffers were re-initialised",
                                 top=top, method=name, args=kwargs, step=i, arch=before, **diff)
                    else:
                        ctx.fail(f"C04/noop/function_changed/{A.component_of(before, name)[0]}",
                                 "the mutation left the architecture unchanged but the network no longer computes the same outputs",
                                 top=top, method=name, args=kwargs, step=i, arch=before, **diff)
                ctx.label("bounded-no-op")
        if step.get("branch"):
            # a BRANCH of the chain: the mutated clone is a sibling that is dropped, the next step clones the same parent again
            # (what tournament selection does with a winner that is drawn twice) - the parent must be unaffected by its clone's fate
            ctx.label("branched:parent-cloned-again-after-its-clone-was-mutated")
            continue
        m = c
        renoise(m, case["seed"] + 7919 * (i + 1))

    if P == "C04" and case["steps"]:
        try:
            c = m.clone()
        except Exception as e:
            ctx.label(f"chain-stopped:clone:{type(e).__name__}")
            c = None
        if c is not None:
            diff = first_difference(outputs(m, batches), outputs(c, batches))
            if diff is not None:
                ctx.fail("C04/clone/outputs_differ", "clone() does not reproduce the outputs of the network it was cloned from",
                         top=top, step=len(case["steps"]), **diff)

    # -- coverage bookkeeping ----------------------------------------------------------------------
    tags = [t for _, t in events]
    hit = [t for t in tags if "blocked" in t or "fallback" in t]
    distinct = sorted({mth for mth, _ in events})
    if any("blocked" in t for t in tags):
        ctx.label("chain-hit-a-bound")
    if any("fallback" in t for t in tags):
        ctx.label("chain-used-a-fall-back")
    if P == "C03":
        if hit or len(distinct) >= 3:
            ctx.nontrivial({"top": top, "ev": events, "b": cfg.get("bounds", "tight")})
    else:
        if grown_total:
            ctx.label("resized:grown")
        if shrunk_total:
            ctx.label("resized:shrunk")
        if resized_total or any(t in ("blocked", "fallback:blocked", "same-value") for t in tags):
            ctx.nontrivial({"top": top, "ev": events, "b": cfg.get("bounds", "tight")})


def _declared_bounds_honoured(ctx, m, cfg, top):
    """'stay inside the DECLARED minimum and maximum': the bounds the caller passed to the constructor are the ones the object
    (and hence every clone / rebuild, which read them back from the object) works with.  Compared by name: every min_* / max_*
    keyword at the top level and inside encoder_config / head_config / cnn_config / mlp_config / lstm_config must be the value of
    the attribute of that name on the corresponding (sub-)module; names the module does not have are skipped."""
    kw = cfg.get("kw") or {}

    def holder(path):
        obj = m
        for part in path:
            obj = getattr(obj, part, None)
            if obj is None:
                return None
        return obj

    def compare(obj, conf, where):
        if obj is None or not isinstance(conf, dict):
            return
        for k, v in conf.items():
            if (k.startswith("min_") or k.startswith("max_")) and isinstance(v, (int, float)) and hasattr(obj, k):
                got = getattr(obj, k)
                if isinstance(got, (int, float, np.integer, np.floating)) and float(got) != float(v):
                    ctx.fail(f"C03/bounds/declared_bound_not_honoured/{type(obj).__name__}/{k}",
                             f"the constructor was given {k}={v} but the {where} works with {k}={got}: every later bound check "
                             "(and every clone / rebuild) uses a range the caller never declared", top=top, declared=v, used=got, where=where)

    compare(m, kw, "object")
    if cfg.get("kind") == "net":
        enc = getattr(m, "encoder", None)
        compare(enc, kw.get("encoder_config"), "encoder")
        hd = getattr(m, "head_net", None)
        compare(getattr(hd, "wrapped", hd), kw.get("head_config"), "head")
        ec = kw.get("encoder_config") or {}
        fn = getattr(enc, "feature_net", None)
        if fn is not None:
            for name, sub in fn.items():
                conf = ec.get("cnn_config") if type(sub).__name__ == "EvolvableCNN" else ec.get("lstm_config") if type(sub).__name__ == "EvolvableLSTM" \
                    else ec.get("mlp_config")
                compare(sub, conf, f"encoder member {name}")
    elif cfg.get("kind") == "multi":
        fn = getattr(m, "feature_net", None)
        if fn is not None:
            for name, sub in fn.items():
                conf = kw.get("cnn_config") if type(sub).__name__ == "EvolvableCNN" else kw.get("lstm_config") if type(sub).__name__ == "EvolvableLSTM" \
                    else kw.get("mlp_config")
                compare(sub, conf, f"member {name}")


def _buffer_cause(c, bufs_before, out_before, batches):
    """'' unless restoring the pre-mutation buffers (same names and shapes) makes the outputs equal again; then the kind of buffer"""
    now = dict(c.named_buffers())
    # (noise samples of NoisyLinear are re-drawn under a fixed seed before every forward: never a cause)
    changed = [k for k, v in now.items() if k in bufs_before and v.shape == bufs_before[k].shape and "epsilon" not in k
               and not torch.equal(v, bufs_before[k])]
    if not changed or set(now) != set(bufs_before):
        return ""
    keep = {k: now[k].detach().clone() for k in changed}
    with torch.no_grad():
        for k in changed:
            now[k].copy_(bufs_before[k])
    same = first_difference(out_before, outputs(c, batches)) is None
    with torch.no_grad():
        for k in changed:
            now[k].copy_(keep[k])
    if not same:
        return ""
    kinds = sorted({"batchnorm_running_statistics" if ("running_" in k or "num_batches_tracked" in k) else
                    "other" for k in changed})
    return "+".join(kinds)


def _bounds_only(d):
    if isinstance(d, dict):
        return {k: (_bounds_only(v) if k != "b" else v) for k, v in d.items() if k == "b" or isinstance(v, dict)}
    return d


def _size_class(size_name):
    # 'QNetwork.encoder.nodes[1]' -> 'nodes'
    return size_name.split(".")[-1].split("[")[0]


def _valid_and_rebuildable(ctx, built, c, batches, top, step_i, method, kwargs):
    """C03 clauses 1 (finite outputs of the declared shape) and 3 (constructor description rebuilds, clone reproduces)"""
    info = dict(top=top, step=step_i, method=method, args=kwargs)
    with ctx.promised("C03/forward", **info):
        out_c = outputs(c, batches)
    for mode, bi, tensors in out_c:
        B = _rows(batches[bi])
        want = built.out_shapes(B)
        if len(tensors) != len(want):
            ctx.fail("C03/forward/wrong_number_of_outputs", "", got=len(tensors), want=len(want), **info)
            continue
        for j, (t, w) in enumerate(zip(tensors, want)):
            if t is None:
                continue
            if tuple(t.shape) != tuple(w):
                ctx.fail("C03/forward/wrong_output_shape", "output does not have the declared shape",
                         got=list(t.shape), want=list(w), batch=B, mode=mode, output=j, **info)
            elif not bool(torch.isfinite(t.double()).all()):
                ctx.fail("C03/forward/non_finite_output", "output contains NaN or infinity", batch=B, mode=mode, output=j, **info)
    # constructor description
    with ctx.promised("C03/rebuild", **info):
        fresh = type(c)(**copy.deepcopy(c.init_dict))
    da, db = A.describe(c), A.describe(fresh)
    if A.canon(da) != A.canon(db):
        ctx.fail("C03/rebuild/architecture_differs", "type(m)(**m.init_dict) builds another architecture (sizes or declared bounds) than m has",
                 mutated=da, rebuilt=db, **info)
    try:
        fresh.load_state_dict(c.state_dict(), strict=True)
        loaded = True
    except RuntimeError as e:
        loaded = False
        ctx.fail("C03/rebuild/state_dict_rejected", "the architecture rebuilt from init_dict does not accept the current weights with strict=True: "
                 + str(e)[:300], **info)
    rebuilt_same = False
    if loaded:
        diff = first_difference(out_c, outputs(fresh, batches))
        rebuilt_same = diff is None
        if diff is not None:
            ctx.fail("C03/rebuild/outputs_differ", "the network rebuilt from init_dict + state_dict computes other outputs", **info, **diff)
    with ctx.promised("C03/clone", **info):
        k = c.clone()
    if rebuilt_same:  # clone() is constructor description + load: when that path already disagrees it is the same root cause
        diff = first_difference(out_c, outputs(k, batches))
        if diff is not None:
            ctx.fail("C03/clone/outputs_differ", "m.clone() computes other outputs than m although the explicit rebuild agrees "
                     "(clone() swallows load_state_dict errors)", **info, **diff)


# ---------------------------------------------------------------------------------------------
# generators
# ---------------------------------------------------------------------------------------------

ACTS = ["ReLU", "Tanh", "ELU", "GELU"]


def _mlp_kw(draw, tight, n_in=None, n_out=None, head=False):
    if tight:
        lo_l = draw(st.sampled_from([1, 1, 2]))
        hi_l = draw(st.sampled_from([v for v in (2, 3) if v > lo_l]))
        lo_n = draw(st.sampled_from([4, 8]))
        hi_n = draw(st.sampled_from([24, 32, 40]))
        layers = draw(st.integers(lo_l, hi_l))
        hidden = [draw(st.sampled_from([v for v in (4, 8, 12, 16, 24, 32, 40) if lo_n <= v <= hi_n])) for _ in range(layers)]
        kw = {"hidden_size": hidden, "min_hidden_layers": lo_l, "max_hidden_layers": hi_l, "min_mlp_nodes": lo_n, "max_mlp_nodes": hi_n}
    else:
        kw = {"hidden_size": draw(st.sampled_from([[64], [64, 64], [128, 64], [32, 32], [16, 16]]))}
    return kw


def _cnn_kw(draw, tight, size):
    if tight:
        lo_c, hi_c = draw(st.sampled_from([2, 4])), draw(st.sampled_from([12, 16, 24]))
        lo_l = draw(st.sampled_from([1, 1, 2]))
        hi_l = draw(st.sampled_from([v for v in (2, 3) if v > lo_l]))
        layers = draw(st.integers(lo_l, 2))
        ch = [draw(st.sampled_from([v for v in (2, 4, 8, 12, 16) if lo_c <= v <= hi_c])) for _ in range(layers)]
        ks = [draw(st.sampled_from([1, 2, 3])) for _ in range(layers)]
        ss = [draw(st.sampled_from([1, 1, 2])) if size >= 12 else 1 for _ in range(layers)]
        return {"channel_size": ch, "kernel_size": ks, "stride_size": ss, "min_hidden_layers": lo_l, "max_hidden_layers": hi_l,
                "min_channel_size": lo_c, "max_channel_size": hi_c}
    return {"channel_size": [16, 16], "kernel_size": [3, 3], "stride_size": [1, 1]}  # the library's default image encoder


def _lstm_kw(draw, tight):
    if tight:
        lo, hi = draw(st.sampled_from([4, 8])), draw(st.sampled_from([24, 32]))
        lo_l = draw(st.sampled_from([1, 1, 2]))
        hi_l = draw(st.sampled_from([v for v in (2, 3) if v > lo_l]))
        return {"hidden_size": draw(st.sampled_from([v for v in (4, 8, 16, 24, 32) if lo <= v <= hi])), "num_layers": draw(st.integers(lo_l, hi_l)),
                "min_hidden_size": lo, "max_hidden_size": hi, "min_layers": lo_l, "max_layers": hi_l}
    return {"hidden_size": 64, "num_layers": 1}


def _simba_kw(draw, tight):
    if tight:
        lo, hi = draw(st.sampled_from([4, 8])), draw(st.sampled_from([24, 32]))
        lo_b = draw(st.sampled_from([1, 1, 2]))
        hi_b = draw(st.sampled_from([v for v in (2, 3) if v > lo_b]))
        return {"hidden_size": draw(st.sampled_from([v for v in (4, 8, 16, 24, 32) if lo <= v <= hi])), "num_blocks": draw(st.integers(lo_b, hi_b)),
                "min_blocks": lo_b, "max_blocks": hi_b, "min_mlp_nodes": lo, "max_mlp_nodes": hi}
    return {"hidden_size": 128, "num_blocks": 2}


def _resnet_kw(draw, tight):
    if tight:
        lo, hi = draw(st.sampled_from([2, 4])), draw(st.sampled_from([12, 16, 24]))
        lo_b = draw(st.sampled_from([1, 1, 2]))
        hi_b = draw(st.sampled_from([v for v in (2, 3) if v > lo_b]))
        return {"channel_size": draw(st.sampled_from([v for v in (2, 4, 8, 12, 16) if lo <= v <= hi])), "kernel_size": draw(st.sampled_from([1, 3])),
                "stride_size": draw(st.sampled_from([1, 2])), "num_blocks": draw(st.integers(lo_b, hi_b)), "min_blocks": lo_b, "max_blocks": hi_b,
                "min_channel_size": lo, "max_channel_size": hi}
    return {"channel_size": 32, "kernel_size": 3, "stride_size": 1, "num_blocks": 1}


@st.composite
def cfg_strategy(draw, family=None):
    fam = family or draw(st.sampled_from(MODULE_KINDS + ["net:" + c for c in NET_CLASSES]))
    tight = draw(st.integers(0, 3)) != 0
    bounds = "tight" if tight else "default"
    amounts = [4, 8, 16, 0] if tight else [16, 32, 8, 64]
    act = draw(st.sampled_from(ACTS))
    if fam == "mlp":
        kw = _mlp_kw(draw, tight)
        kw.update(num_inputs=draw(st.integers(1, 5)), num_outputs=draw(st.integers(1, 4)), activation=act,
                  output_activation=draw(st.sampled_from([None, "Tanh", "Softmax"])), layer_norm=draw(st.booleans()),
                  output_layernorm=draw(st.booleans()), noisy=draw(st.integers(0, 4)) == 0, output_vanish=draw(st.booleans()),
                  init_layers=draw(st.booleans()))
        cfg = {"kind": "mlp", "kw": kw}
    elif fam == "simba":
        kw = _simba_kw(draw, tight)
        kw.update(num_inputs=draw(st.integers(1, 5)), num_outputs=draw(st.integers(1, 4)), scale_factor=draw(st.sampled_from([1, 2, 4])))
        cfg = {"kind": "simba", "kw": kw}
    elif fam == "lstm":
        kw = _lstm_kw(draw, tight)
        kw.update(input_size=draw(st.integers(1, 4)), num_outputs=draw(st.integers(1, 4)), output_activation=draw(st.sampled_from([None, "Tanh"])))
        cfg = {"kind": "lstm", "kw": kw, "T": draw(st.integers(1, 4))}
    elif fam in ("cnn2d", "cnn3d"):
        size = draw(st.sampled_from([8, 16, 20]))
        kw = _cnn_kw(draw, tight, size)
        # square, landscape and portrait images (kernel limits depend on the SMALLER side of the feature map)
        hw = draw(st.sampled_from([[size, size], [size, size], [size, 2 * size + 4], [2 * size + 4, size], [8, 40], [40, 8]]))
        kw.update(input_shape=[draw(st.integers(1, 3))] + hw, num_outputs=draw(st.integers(1, 4)), activation=act,
                  layer_norm=draw(st.booleans()), init_layers=draw(st.booleans()), output_activation=draw(st.sampled_from([None, "ReLU"])))
        cfg = {"kind": fam, "kw": kw}
        if fam == "cnn3d":
            cfg["depth"] = draw(st.integers(1, 3))
        amounts = [2, 4, 8, 0] if tight else [8, 16, 32, 4]
    elif fam == "resnet":
        size = draw(st.sampled_from([6, 8]))
        kw = _resnet_kw(draw, tight)
        kw.update(input_shape=[draw(st.integers(1, 3)), size, size], num_outputs=draw(st.integers(1, 4)), scale_factor=draw(st.sampled_from([1, 2])))
        cfg = {"kind": "resnet", "kw": kw}
        amounts = [2, 4, 8, 0] if tight else [8, 16, 32, 4]
    elif fam == "multi":
        cfg = {"kind": "multi", "space": draw(_multi_space()), "kw": draw(_multi_kw(tight, act))}
        cfg["kw"]["num_outputs"] = draw(st.integers(1, 4))
        if not cfg["space"].get("seq"):
            cfg["kw"]["recurrent"] = False
    else:
        cfg = draw(_net_cfg(fam.split(":")[1], tight, act))
    cfg["bounds"] = bounds
    return cfg, amounts


@st.composite
def _multi_space(draw):
    s = {"type": draw(st.sampled_from(["dict", "tuple"])), "vec": draw(st.sampled_from([0, 2, 3])),
         "img": draw(st.sampled_from([None, [1, 8, 8], [2, 8, 8], [2, 16, 16]])),
         "seq": draw(st.sampled_from([None, [3, 2]])), "disc": draw(st.sampled_from([0, 3]))}
    if not s["vec"] and not s["disc"]:
        s["vec"] = 3  # the module concatenates vector inputs: at least one vector member
    if not s["img"] and not s["seq"]:
        s["img"] = [2, 8, 8]
    if s["img"] and draw(st.integers(0, 2)) == 0:
        s["img2"] = draw(st.sampled_from([[1, 8, 8], [2, 8, 8], [3, 12, 12]]))
    return s


@st.composite
def _multi_kw(draw, tight, act):
    if tight:
        lo, hi = draw(st.sampled_from([2, 4])), draw(st.sampled_from([16, 24]))
        cnn = _cnn_kw(draw, True, 8)
        cnn.update(activation=act, layer_norm=draw(st.booleans()))
        mlp = _mlp_kw(draw, True)
        mlp.update(activation=act)
        return {"latent_dim": draw(st.sampled_from([v for v in (4, 8, 12, 16) if lo <= v <= hi])), "min_latent_dim": lo, "max_latent_dim": hi,
                "vector_space_mlp": draw(st.booleans()), "recurrent": draw(st.booleans()),
                "cnn_config": cnn, "mlp_config": mlp, "lstm_config": _lstm_kw(draw, True),
                "output_activation": draw(st.sampled_from([None, "ReLU"]))}
    return {"vector_space_mlp": draw(st.booleans()), "recurrent": draw(st.booleans())}  # library defaults


@st.composite
def _net_cfg(draw, name, tight, act):
    kinds = ["vector", "image", "sequence", "dict", "tuple"]
    obs_t = draw(st.sampled_from(kinds))
    kw: Dict[str, Any] = {}
    cfg: Dict[str, Any] = {"kind": "net", "cls": name}
    explicit_act = True  # a config that omits "activation" is known finding C01/faithful/encoder_output_activation...: outside this domain
    recurrent = False
    if obs_t == "vector":
        cfg["obs"] = {"type": "vector", "n": draw(st.integers(2, 5))}
        simba = name != "RainbowQNetwork" and draw(st.integers(0, 3)) == 0
        if simba:
            kw["simba"] = True
        if tight:
            enc = _simba_kw(draw, True) if simba else _mlp_kw(draw, True)
            if not simba and explicit_act:
                enc["activation"] = act
            kw["encoder_config"] = enc
    elif obs_t == "image":
        size = draw(st.sampled_from([8, 16]))
        hw = draw(st.sampled_from([[size, size], [size, size], [size, 2 * size + 4], [2 * size + 4, size], [8, 40], [40, 8]]))
        cfg["obs"] = {"type": "image", "shape": [draw(st.integers(1, 3))] + hw}
        use_resnet = name not in ("RainbowQNetwork",) and draw(st.integers(0, 4)) == 0
        n_agents = (not use_resnet) and draw(st.integers(0, 3)) == 0
        if use_resnet:
            kw["encoder_cls"] = "ResNet"
            enc = _resnet_kw(draw, tight)
            enc.update(input_shape=cfg["obs"]["shape"])
            kw["encoder_config"] = enc
        else:
            if tight or n_agents:
                enc = _cnn_kw(draw, tight, size)
                if explicit_act:
                    enc["activation"] = act
                enc["layer_norm"] = draw(st.booleans())
                kw["encoder_config"] = enc
            if n_agents:
                kw["n_agents"] = 2
                cfg["depth"] = draw(st.sampled_from([1, 2]))
    elif obs_t == "sequence":
        cfg["obs"] = {"type": "sequence", "shape": [draw(st.integers(2, 4)), draw(st.integers(1, 3))]}
        recurrent = name not in ("RainbowQNetwork", "ContinuousQNetwork") and draw(st.booleans())
        if recurrent:
            kw["recurrent"] = True
            kw["encoder_config"] = _lstm_kw(draw, tight)
        elif tight:
            enc = _mlp_kw(draw, True)
            if explicit_act:
                enc["activation"] = act
            kw["encoder_config"] = enc
    else:
        sp = draw(_multi_space())
        sp["type"] = obs_t
        sp["seq"] = None if name in ("RainbowQNetwork", "ContinuousQNetwork") else sp["seq"]
        if not sp["img"] and not sp["seq"]:
            sp["img"] = [2, 8, 8]
        cfg["obs"] = sp
        if tight:
            enc = draw(_multi_kw(True, act))
            if not sp.get("seq"):
                enc["recurrent"] = False
            kw["encoder_config"] = enc
            recurrent = enc["recurrent"]
        if recurrent and name not in ("RainbowQNetwork", "ContinuousQNetwork"):
            kw["recurrent"] = True
    if tight:
        lo, hi = draw(st.sampled_from([2, 4])), draw(st.sampled_from([16, 24]))
        kw.update(latent_dim=draw(st.sampled_from([v for v in (4, 8, 12, 16) if lo <= v <= hi])), min_latent_dim=lo, max_latent_dim=hi)
        head = _mlp_kw(draw, True)
        if explicit_act:
            head["activation"] = act
        kw["head_config"] = head
    # action space
    if name in ("QNetwork", "RainbowQNetwork"):
        cfg["act"] = {"type": "discrete", "n": draw(st.integers(2, 4))}
    elif name == "ContinuousQNetwork":
        cfg["act"] = {"type": "box", "n": draw(st.integers(1, 3))}
    elif name == "DeterministicActor":
        cfg["act"] = draw(st.sampled_from([{"type": "box", "n": 2}, {"type": "box", "n": 1, "asym": True}, {"type": "discrete", "n": 3}]))
    elif name == "StochasticActor":
        cfg["act"] = draw(st.sampled_from([{"type": "discrete", "n": 3}, {"type": "box", "n": 2}, {"type": "multidiscrete", "nvec": [2, 3]},
                                           {"type": "multibinary", "n": 3}]))
    if name == "RainbowQNetwork":
        kw["num_atoms"] = draw(st.sampled_from([3, 5]))
        if "head_config" in kw:  # Rainbow pops these anyway
            kw["head_config"].pop("activation", None)
            kw["head_config"]["activation"] = act
    cfg["kw"] = kw
    return cfg


@st.composite
def step_strategy(draw):
    mode = draw(st.sampled_from(["internal", "explicit", "explicit", "mixed"]))
    if mode == "internal":
        hl = n = k = None
    elif mode == "explicit":
        hl, n, k = draw(st.integers(0, 3)), draw(st.integers(0, 3)), draw(st.integers(0, 8))
    else:
        hl, n, k = draw(st.none() | st.integers(0, 3)), draw(st.none() | st.integers(0, 3)), draw(st.none() | st.integers(0, 8))
    return {"m": draw(st.integers(0, 47)), "hl": hl, "n": n, "k": k, "seed": draw(st.integers(0, 9999)),
            "probe": draw(st.integers(0, 4)) == 0, "branch": draw(st.integers(0, 4)) == 0}


def walk_strategy(max_steps_quick=10, max_steps_thorough=40, family=None):
    @st.composite
    def strat(draw, tier):
        cfg, amounts = draw(cfg_strategy(family))
        hi = max_steps_thorough if tier == "thorough" else max_steps_quick
        steps = draw(st.lists(step_strategy(), min_size=1, max_size=hi))
        return {"cfg": cfg, "amounts": amounts, "seed": draw(st.integers(0, 99999)), "steps": steps}

    return lambda tier: strat(tier)


# ---- exhaustive scopes -----------------------------------------------------------------------------

def _choices_mlp(prefix="", layers=(0, 2), nodes=(8, 16)):
    ch = [(prefix + "add_layer", {}), (prefix + "remove_layer", {})]
    for mth in ("add_node", "remove_node"):
        for h in layers:
            for n in nodes:
                ch.append((prefix + mth, {"hidden_layer": h, "numb_new_nodes": n}))
    return ch


def _choices_scalar(grow, shrink, deeper, shallower, arg, amounts):
    ch = [(deeper, {}), (shallower, {})]
    for mth in (grow, shrink):
        for n in amounts:
            ch.append((mth, {arg: n}))
    return ch


def exhaustive_scopes(tier):
    """[(name, cfg, choices, depth)]"""
    deep = tier == "thorough"
    mlp = {"kind": "mlp", "bounds": "tight", "kw": {"num_inputs": 3, "num_outputs": 2, "hidden_size": [16], "min_hidden_layers": 1,
                                                      "max_hidden_layers": 3, "min_mlp_nodes": 8, "max_mlp_nodes": 32, "activation": "ReLU"}}
    lstm = {"kind": "lstm", "bounds": "tight", "T": 3, "kw": {"input_size": 2, "num_outputs": 2, "hidden_size": 8, "num_layers": 1,
                                                               "min_hidden_size": 4, "max_hidden_size": 24, "min_layers": 1, "max_layers": 3}}
    simba = {"kind": "simba", "bounds": "tight", "kw": {"num_inputs": 3, "num_outputs": 2, "hidden_size": 8, "num_blocks": 1, "min_blocks": 1,
                                                          "max_blocks": 3, "min_mlp_nodes": 4, "max_mlp_nodes": 24, "scale_factor": 2}}
    resnet = {"kind": "resnet", "bounds": "tight", "kw": {"input_shape": [2, 6, 6], "num_outputs": 2, "channel_size": 4, "kernel_size": 3,
                                                            "stride_size": 1, "num_blocks": 1, "min_blocks": 1, "max_blocks": 3,
                                                            "min_channel_size": 2, "max_channel_size": 12, "scale_factor": 1}}
    scopes = [
        ("mlp", mlp, _choices_mlp(), 4 if deep else 2),
        ("lstm", lstm, _choices_scalar("add_node", "remove_node", "add_layer", "remove_layer", "numb_new_nodes", (4, 8, 16)), 4 if deep else 2),
        ("simba", simba, _choices_scalar("add_node", "remove_node", "add_block", "remove_block", "numb_new_nodes", (4, 8, 16)), 4 if deep else 2),
        ("resnet", resnet, _choices_scalar("add_channel", "remove_channel", "add_block", "remove_block", "numb_new_channels", (2, 4, 8)),
         4 if deep else 2),
    ]
    # multi-input module with its latent width AT the upper bound: add_latent_node is a no-op, remove_latent_node is real; nested
    # encoder mutations interleave with the module's own latent mutations (which rebuild every nested encoder)
    multi = {"kind": "multi", "bounds": "tight", "space": {"type": "dict", "vec": 3, "img": [2, 8, 8], "seq": None, "disc": 0},
             "kw": {"num_outputs": 2, "latent_dim": 16, "min_latent_dim": 8, "max_latent_dim": 16, "vector_space_mlp": True,
                    "cnn_config": {"channel_size": [4], "kernel_size": [3], "stride_size": [1], "min_channel_size": 2, "max_channel_size": 12,
                                   "min_hidden_layers": 1, "max_hidden_layers": 2, "activation": "ReLU"},
                    "mlp_config": {"hidden_size": [8], "min_hidden_layers": 1, "max_hidden_layers": 2, "min_mlp_nodes": 4, "max_mlp_nodes": 16,
                                   "activation": "ReLU"}}}
    multi_choices = [("add_latent_node", {"numb_new_nodes": 8}), ("remove_latent_node", {"numb_new_nodes": 8}),
                     ("feature_net.img.add_channel", {"hidden_layer": 0, "numb_new_channels": 4}),
                     ("feature_net.img.remove_channel", {"hidden_layer": 0, "numb_new_channels": 2}),
                     ("feature_net.img.change_kernel", {}),
                     ("feature_net.vector_mlp.add_node", {"hidden_layer": 0, "numb_new_nodes": 4}),
                     ("feature_net.vector_mlp.remove_node", {"hidden_layer": 0, "numb_new_nodes": 4}),
                     ("feature_net.vector_mlp.add_layer", {}), ("feature_net.img.add_layer", {})]
    scopes.append(("multi_input", multi, multi_choices, 3 if deep else 2))
    enc = {"hidden_size": [8], "min_hidden_layers": 1, "max_hidden_layers": 2, "min_mlp_nodes": 4, "max_mlp_nodes": 16, "activation": "ReLU"}
    head = {"hidden_size": [8], "min_hidden_layers": 1, "max_hidden_layers": 2, "min_mlp_nodes": 4, "max_mlp_nodes": 16, "activation": "ReLU"}
    net_choices = ([("add_latent_node", {"numb_new_nodes": n}) for n in (4, 8)] + [("remove_latent_node", {"numb_new_nodes": n}) for n in (4, 8)]
                   + [(f"encoder.{mth}", {"hidden_layer": 0, "numb_new_nodes": n}) for mth in ("add_node", "remove_node") for n in (4, 8)]
                   + [c for c in _choices_mlp("head_net.", layers=(0, 1), nodes=(8,))])
    for cls, act in (("QNetwork", {"type": "discrete", "n": 2}), ("ValueNetwork", None), ("DeterministicActor", {"type": "box", "n": 2}),
                     ("StochasticActor", {"type": "discrete", "n": 2})):
        cfg = {"kind": "net", "cls": cls, "bounds": "tight", "obs": {"type": "vector", "n": 3},
               "kw": {"encoder_config": copy.deepcopy(enc), "head_config": copy.deepcopy(head), "latent_dim": 8, "min_latent_dim": 4, "max_latent_dim": 16}}
        if act:
            cfg["act"] = act
        scopes.append((cls, cfg, net_choices, 3 if deep else 1))
    return scopes


def enumerate_cases(tier):
    for name, cfg, choices, depth in exhaustive_scopes(tier):
        for seq in itertools.product(range(len(choices)), repeat=depth):
            steps = [{"name": choices[j][0], "args": dict(choices[j][1]), "seed": 0} for j in seq]
            yield {"cfg": copy.deepcopy(cfg), "amounts": [8], "seed": 11, "steps": steps, "scope": name}


def exhaustive_note(tier="thorough"):
    parts = []
    for name, cfg, choices, depth in exhaustive_scopes(tier):
        parts.append(f"{name}: all {len(choices)}^{depth} = {len(choices) ** depth} sequences of (method, explicit arguments) of length {depth}")
    return "exhaustive: true for the tight-bound scopes of obligation enumerated_walks (" + tier + " tier) - " + "; ".join(parts)


# ---- obligations shared by C03 / C04 ---------------------------------------------------------------

FAMILIES = MODULE_KINDS + ["net:" + c for c in NET_CLASSES]
# chains per family (one shard each in the quick tier so that every class is produced; the cheap vector modules get more)
QUICK_EXAMPLES = {"mlp": 60, "lstm": 50, "simba": 50, "resnet": 40, "cnn2d": 40, "cnn3d": 36, "multi": 36}
QUICK_DEFAULT = 36
THOROUGH_EXAMPLES = {"mlp": 60, "lstm": 60, "simba": 60}
THOROUGH_DEFAULT = 30  # x 16 shards x 14 families ~ 8 000 chains of <= 40 steps, next to ~33 000 enumerated sequences


def make_obligations(run_case):
    from vp.core.engine import Obligation

    obls = []
    for fam in FAMILIES:
        obls.append(Obligation("walk/" + fam.replace("net:", ""), run_case, strategy=walk_strategy(10, 40, family=fam),
                               examples={"quick": QUICK_EXAMPLES.get(fam, QUICK_DEFAULT), "thorough": THOROUGH_EXAMPLES.get(fam, THOROUGH_DEFAULT)},
                               shards={"quick": 1, "thorough": 16}, shrink_budget={"quick": 60, "thorough": 300}))
    obls.append(Obligation("enumerated_walks", run_case, enumerate=enumerate_cases, shards={"quick": 2, "thorough": 16},
                           exhaustive_note=exhaustive_note("thorough")))
    return obls
