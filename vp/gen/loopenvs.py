"""Instrumented deterministic environments for the training-loop checks (C20): they count their own steps per phase."""
from __future__ import annotations

import numpy as np
from gymnasium import spaces

from vp.gen import spaces as sp


class Counter:
    """Shared bookkeeping: a new segment starts at every reset(); steps are booked to the current phase."""

    def __init__(self):
        self.phase = "train"
        self.segments = []  # [phase, number of step() calls]

    def on_reset(self):
        self.segments.append([self.phase, 0])

    def on_step(self):
        if not self.segments:
            self.segments.append([self.phase, 0])
        self.segments[-1][1] += 1

    def train_segments(self):
        return [n for ph, n in self.segments if ph == "train"]


class CountingVecEnv:
    """Duck-typed gymnasium-style vector env: (num_envs, *shape) observations, auto-reset of finished sub-envs."""

    def __init__(self, num_envs, obs_space, act_space, ep_lens, seed=0, trunc=False):
        self.num_envs = num_envs
        self.single_observation_space = obs_space
        self.single_action_space = act_space
        self.observation_space = obs_space
        self.action_space = act_space
        self.ep_lens = [ep_lens[i % len(ep_lens)] for i in range(num_envs)]
        self.trunc = trunc
        self.counter = Counter()
        self.rng = np.random.default_rng(seed)
        self.t = np.zeros(num_envs, dtype=int)
        self.actions_seen = []

    def _obs(self):
        return sp.sample_obs(self.single_observation_space, self.num_envs, self.rng)

    def reset(self, seed=None, options=None):
        self.counter.on_reset()
        self.t[:] = 0
        return self._obs(), {}

    def step(self, actions):
        self.counter.on_step()
        a = np.asarray(actions)
        assert a.shape[0] == self.num_envs, f"vector env got actions of shape {a.shape} for {self.num_envs} envs"
        for row in a:
            assert self.single_action_space.contains(np.asarray(row, dtype=self.single_action_space.dtype).reshape(
                self.single_action_space.shape)), f"illegal action {row!r}"
        self.t += 1
        done = np.array([self.t[i] >= self.ep_lens[i] for i in range(self.num_envs)])
        self.t[done] = 0
        reward = self.rng.normal(size=self.num_envs).astype(np.float32)
        term = np.zeros(self.num_envs, dtype=bool) if self.trunc else done
        trunc = done if self.trunc else np.zeros(self.num_envs, dtype=bool)
        return self._obs(), reward, term, trunc, {}


class CountingSingleEnv:
    """Plain (non-vectorised) gymnasium-style env: no num_envs attribute, scalar reward/flags."""

    def __init__(self, obs_space, act_space, ep_len, seed=0):
        self.observation_space = obs_space
        self.action_space = act_space
        self.ep_len = ep_len
        self.counter = Counter()
        self.rng = np.random.default_rng(seed)
        self.t = 0

    def reset(self, seed=None, options=None):
        self.counter.on_reset()
        self.t = 0
        return sp.sample_obs(self.observation_space, None, self.rng), {}

    def step(self, action):
        self.counter.on_step()
        self.t += 1
        done = self.t >= self.ep_len
        obs = sp.sample_obs(self.observation_space, None, self.rng)
        if done:
            self.t = 0
        return obs, float(self.rng.normal()), bool(done), False, {}


class CountingBanditEnv:
    """Same interface as agilerl.wrappers.learning.BanditEnv: reset() -> context (arms, dim); step(k) -> (context, reward)."""

    def __init__(self, arms, dim, seed=0):
        self.arms = arms
        self.context_dim = (dim,)
        self.counter = Counter()
        self.rng = np.random.default_rng(seed)
        self.prev_reward = np.zeros(arms)

    def _ctx(self):
        return self.rng.uniform(-1, 1, size=(self.arms, *self.context_dim))

    def reset(self):
        self.counter.on_reset()
        self.prev_reward = np.zeros(self.arms)
        self.prev_reward[int(self.rng.integers(0, self.arms))] = 1
        return self._ctx()

    def step(self, k):
        self.counter.on_step()
        assert 0 <= int(k) < self.arms, f"illegal arm {k!r}"
        reward = self.prev_reward[int(k)]
        self.prev_reward = np.zeros(self.arms)
        self.prev_reward[int(self.rng.integers(0, self.arms))] = 1
        return self._ctx(), reward


# ---------------------------------------------------------------------------
# generic counting proxy + multi-agent env
# ---------------------------------------------------------------------------
CURRENT = {"agent": None, "phase": "train"}  # set by the class-level get_action / test wrappers of the harness


class CountingProxy:
    """Forwards everything to `env`; books every step() to (current phase, id of the agent that acted last)."""

    def __init__(self, env, rows_per_step):
        object.__setattr__(self, "_env", env)
        object.__setattr__(self, "_rows", rows_per_step)
        object.__setattr__(self, "train_steps_by_agent", {})
        object.__setattr__(self, "eval_steps", 0)
        object.__setattr__(self, "resets", 0)

    def __getattr__(self, name):
        return getattr(object.__getattribute__(self, "_env"), name)

    def reset(self, *a, **k):
        object.__setattr__(self, "resets", self.resets + 1)
        return self._env.reset(*a, **k)

    def step(self, action):
        out = self._env.step(action)
        if CURRENT["phase"] == "train":
            key = CURRENT["agent"]
            self.train_steps_by_agent[key] = self.train_steps_by_agent.get(key, 0) + self._rows
        else:
            object.__setattr__(self, "eval_steps", self.eval_steps + self._rows)
        return out


def make_pz_env_class():
    from pettingzoo import ParallelEnv

    class CountingPZ(ParallelEnv):
        metadata = {"name": "counting_pz"}
        render_mode = None

        def __init__(self, agent_ids, obs_spaces, act_spaces, ep_len, seed=0):
            self.possible_agents = list(agent_ids)
            self.agents = list(agent_ids)
            self._obs = dict(zip(agent_ids, obs_spaces))
            self._act = dict(zip(agent_ids, act_spaces))
            self.ep_len = ep_len
            self.rng = np.random.default_rng(seed)
            self.t = 0

        def observation_space(self, agent):
            return self._obs[agent]

        def action_space(self, agent):
            return self._act[agent]

        def _o(self):
            return {a: sp.sample_obs(s, None, self.rng) for a, s in self._obs.items()}

        def reset(self, seed=None, options=None):
            self.agents = list(self.possible_agents)
            self.t = 0
            return self._o(), {a: {} for a in self.agents}

        def step(self, actions):
            for a in self.agents:
                space = self._act[a]
                act = np.asarray(actions[a], dtype=space.dtype).reshape(space.shape)
                if isinstance(space, spaces.Box):
                    assert act.shape == space.shape, f"action of {a} has shape {act.shape}"
                else:
                    assert space.contains(act if act.shape else space.dtype.type(act)), f"illegal action {actions[a]!r} for {a}"
            self.t += 1
            done = self.t >= self.ep_len
            rew = {a: float(self.rng.normal()) for a in self.agents}
            term = {a: bool(done) for a in self.agents}
            trunc = {a: False for a in self.agents}
            return self._o(), rew, term, trunc, {a: {} for a in self.agents}

    return CountingPZ


_PZ_CLASS = None


def pz_env(agent_ids, obs_spaces, act_spaces, ep_len, seed=0):
    global _PZ_CLASS
    if _PZ_CLASS is None:
        _PZ_CLASS = make_pz_env_class()
    return _PZ_CLASS(agent_ids, obs_spaces, act_spaces, ep_len, seed)
