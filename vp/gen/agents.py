"""Builders for small AgileRL agents, batches and rollouts (JSON spec -> live objects)."""
from __future__ import annotations

import copy

import numpy as np
import torch
from gymnasium import spaces

from vp.gen import spaces as sp

SINGLE_DISCRETE = ["DQN", "DDQN", "Rainbow", "CQN"]
SINGLE_CONT = ["DDPG", "TD3"]
ONPOLICY = ["PPO"]
BANDITS = ["NeuralUCB", "NeuralTS"]
MULTI_OFF = ["MADDPG", "MATD3"]
MULTI_ON = ["IPPO"]
ALL_ALGOS = SINGLE_DISCRETE + SINGLE_CONT + ONPOLICY + BANDITS + MULTI_OFF + MULTI_ON
VALUE_BASED = SINGLE_DISCRETE + SINGLE_CONT + MULTI_OFF

AGENT_IDS = ["a_1", "a_0", "b_0"]  # two homogeneous agents + one other; deliberately NOT in lexicographic order (gymnasium Dict spaces sort their keys: code that follows the space instead of agent_ids mixes agents up)


def seed_all(seed: int):
    import random

    import fastrand

    random.seed(seed)
    np.random.seed(seed % (2**32))
    torch.manual_seed(seed)
    fastrand.pcg32_seed(seed % (2**31))


def net_config(obs_space, algo="DQN", head=16, enc=16, latent=8, explicit_act=True, max_layers=None, batch_norm=False):
    if isinstance(obs_space, (spaces.Dict, spaces.Tuple)):
        enc_cfg = {
            "latent_dim": 8,
            "vector_space_mlp": False,
            "cnn_config": {"channel_size": [4], "kernel_size": [3], "stride_size": [2]},
            "mlp_config": {"hidden_size": [enc], "min_mlp_nodes": 8, "max_mlp_nodes": 64},
        }
    elif isinstance(obs_space, spaces.Box) and len(obs_space.shape) == 3:
        enc_cfg = {"channel_size": [4], "kernel_size": [3], "stride_size": [2]}
    elif isinstance(obs_space, spaces.Box) and len(obs_space.shape) == 2:
        enc_cfg = {"hidden_size": [enc], "min_mlp_nodes": 8, "max_mlp_nodes": 64}
    else:
        enc_cfg = {"hidden_size": [enc], "min_mlp_nodes": 8, "max_mlp_nodes": 64}
    if batch_norm:
        # the library's DEFAULT image encoder config has layer_norm=True, which for CNNs means BatchNorm2d
        if "cnn_config" in enc_cfg:
            enc_cfg["cnn_config"]["layer_norm"] = True
        elif "channel_size" in enc_cfg:
            enc_cfg["layer_norm"] = True
    if explicit_act:
        # an encoder_config without "activation" resolves the encoder's output activation differently on
        # first build and on clone (finding C01/faithful/encoder_output_activation...); most checks avoid that path
        if "cnn_config" in enc_cfg:
            enc_cfg["cnn_config"]["activation"] = "ReLU"
            enc_cfg["mlp_config"]["activation"] = "ReLU"
        else:
            enc_cfg["activation"] = "ReLU"
    head_cfg = {"hidden_size": [head], "min_mlp_nodes": 8, "max_mlp_nodes": 64}
    if max_layers is not None:
        # tight layer bound: add_layer reaches its limit (and its documented fall-back) within one or two mutations
        head_cfg["max_hidden_layers"] = max_layers
        head_cfg["hidden_size"] = [head] * max(1, max_layers - 1 if max_layers > 1 else 1)
        head_cfg["max_mlp_nodes"] = 40
    return {"latent_dim": latent, "encoder_config": enc_cfg, "head_config": head_cfg}


def default_hp(algo):
    hp = {"batch_size": 4, "learn_step": 1}
    if algo in ("DQN", "DDQN", "CQN"):
        hp.update(lr=1e-2, gamma=0.9, tau=0.3)
    elif algo == "Rainbow":
        hp.update(lr=1e-2, gamma=0.9, tau=0.3, num_atoms=5, v_min=-2.0, v_max=2.0, n_step=2)
    elif algo in ("DDPG", "TD3"):
        hp.update(lr_actor=1e-2, lr_critic=1e-2, gamma=0.9, tau=0.3, policy_freq=2)
    elif algo in ("PPO", "IPPO"):
        hp.update(lr=1e-2, gamma=0.9, gae_lambda=0.8, update_epochs=1, learn_step=8)
    elif algo in BANDITS:
        hp.update(lr=1e-2, lamb=1.0, gamma=1.0)
    elif algo in ("MADDPG",):
        hp.update(lr_actor=1e-2, lr_critic=1e-2, gamma=0.9, tau=0.3)
    elif algo in ("MATD3",):
        hp.update(lr_actor=1e-2, lr_critic=1e-2, gamma=0.9, tau=0.3, policy_freq=2)
    return hp


def make_hp_config(algo, spec=None):
    """spec: dict name -> [min, max, shrink, grow, 'int'|'float'] ; None -> library-like default"""
    from agilerl.algorithms.core.registry import HyperparameterConfig, RLParameter

    if spec is None:
        if algo in ("DDPG", "TD3", "MADDPG", "MATD3"):
            spec = {"lr_actor": [1e-4, 1e-1, 0.8, 1.2, "float"], "lr_critic": [1e-4, 1e-1, 0.8, 1.2, "float"],
                    "batch_size": [2, 8, 0.8, 1.2, "int"]}
        else:
            spec = {"lr": [1e-4, 1e-1, 0.8, 1.2, "float"], "batch_size": [2, 8, 0.8, 1.2, "int"]}
    return HyperparameterConfig(**{
        k: RLParameter(min=v[0], max=v[1], shrink_factor=v[2], grow_factor=v[3], dtype=int if v[4] == "int" else float)
        for k, v in spec.items()
    })


def spaces_for(spec):
    algo = spec["algo"]
    ov = spec.get("obsv", 0)
    av = spec.get("actv", 0)
    if algo in BANDITS:
        obs = spaces.Box(-1.0, 1.0, (3 + ov % 2,), np.float32)
        act = spaces.Discrete(2 + av % 3)
        return obs, act
    obs = sp.obs_space(spec.get("obs", "vector"), ov)
    if algo in SINGLE_DISCRETE:
        act = sp.act_space("discrete", av)
    elif algo in SINGLE_CONT:
        act = sp.act_space(spec.get("act", "box"), av)
    elif algo == "PPO":
        act = sp.act_space(spec.get("act", "discrete"), av)
    else:  # multi-agent: list per agent
        kind = spec.get("act", "discrete" if algo == "IPPO" else "box")
        n = spec.get("n_agents", 3)
        obs_l, act_l = [], []
        for i in range(n):
            homo = AGENT_IDS[i].split("_")[0]
            # homogeneous agents (same prefix) must share spaces
            obs_l.append(sp.obs_space(spec.get("obs", "vector"), ov if homo == "a" else ov))
            act_l.append(sp.act_space(kind, av))
        return obs_l, act_l
    return obs, act


def build(spec, hp_config=None):
    """Construct the agent a JSON spec describes.  Seeded, so building twice gives identical agents."""
    from agilerl.algorithms import CQN, DDPG, DQN, IPPO, MADDPG, MATD3, PPO, TD3, NeuralTS, NeuralUCB, RainbowDQN

    algo = spec["algo"]
    seed_all(spec.get("seed", 0))
    obs, act = spaces_for(spec)
    hp = default_hp(algo)
    hp.update(spec.get("hp", {}))
    first_obs = obs[0] if isinstance(obs, list) else obs
    kw = dict(net_config=net_config(first_obs, algo, explicit_act=spec.get("netact", True), max_layers=spec.get("maxl"),
                                    batch_norm=bool(spec.get("bn"))),
              hp_config=hp_config,
              index=spec.get("index", 0))
    if "net" in spec:
        kw["net_config"] = copy.deepcopy(spec["net"])
    kw.update(hp)
    share = spec.get("share", False)
    if algo == "DQN":
        return DQN(obs, act, **kw)
    if algo == "DDQN":
        return DQN(obs, act, double=True, **kw)
    if algo == "Rainbow":
        return RainbowDQN(obs, act, **kw)
    if algo == "CQN":
        return CQN(obs, act, **kw)
    if algo == "DDPG":
        return DDPG(obs, act, share_encoders=share, **kw)
    if algo == "TD3":
        return TD3(obs, act, share_encoders=share, **kw)
    if algo == "PPO":
        return PPO(obs, act, share_encoders=share, **kw)
    if algo == "NeuralUCB":
        return NeuralUCB(obs, act, **kw)
    if algo == "NeuralTS":
        return NeuralTS(obs, act, **kw)
    ids = AGENT_IDS[: len(obs)]
    if algo == "MADDPG":
        return MADDPG(obs, act, ids, **kw)
    if algo == "MATD3":
        return MATD3(obs, act, ids, **kw)
    if algo == "IPPO":
        return IPPO(obs, act, ids, **kw)
    raise ValueError(algo)


# ---------------------------------------------------------------------------
# batches
# ---------------------------------------------------------------------------

def offpolicy_batch(agent, spec, n, seed, dones=None, per=False, with_idx=False):
    """A TensorDict batch exactly as ReplayBuffer.sample emits it (built through Transition + ReplayBuffer)."""
    from agilerl.components.data import Transition
    from agilerl.components.replay_buffer import ReplayBuffer

    rng = np.random.default_rng(seed)
    obs_space, act_space = spaces_for(spec)
    buf = ReplayBuffer(max_size=n)
    obs = sp.sample_obs(obs_space, n, rng)
    nobs = sp.sample_obs(obs_space, n, rng)
    if isinstance(act_space, spaces.Discrete):
        action = rng.integers(0, act_space.n, size=(n,))
    else:
        action = sp.sample_action(act_space, n, rng)
    reward = rng.normal(size=(n,)).astype(np.float32)
    if dones is None:
        dones = rng.integers(0, 2, size=(n,))
    done = np.asarray(dones, dtype=np.float32)
    tr = Transition(obs=obs, action=action, reward=reward, next_obs=nobs, done=done)
    td = tr.to_tensordict()
    td.batch_size = [n]
    buf.add(td)
    out = buf.storage[:n].clone()
    if with_idx:
        out["idxs"] = torch.arange(n)
    if per:
        out["weights"] = torch.ones(n, 1)
        out["idxs"] = torch.arange(n).unsqueeze(1)
    return out


def bandit_batch(agent, spec, n, seed):
    from tensordict import TensorDict

    rng = np.random.default_rng(seed)
    obs_space, _ = spaces_for(spec)
    return TensorDict({"obs": torch.tensor(rng.uniform(-1, 1, size=(n, *obs_space.shape)).astype(np.float32)),
                       "reward": torch.tensor(rng.normal(size=(n, 1)).astype(np.float32))}, batch_size=[n])


def bandit_context(spec, seed):
    rng = np.random.default_rng(seed)
    obs_space, act_space = spaces_for(spec)
    return rng.uniform(-1, 1, size=(act_space.n, *obs_space.shape)).astype(np.float32)


def ma_batch(agent, spec, n, seed, dones=None):
    """Multi-agent off-policy batch built through MultiAgentReplayBuffer (as train_multi_agent_off_policy does)."""
    from agilerl.components.multi_agent_replay_buffer import MultiAgentReplayBuffer

    rng = np.random.default_rng(seed)
    obs_l, act_l = spaces_for(spec)
    ids = AGENT_IDS[: len(obs_l)]
    buf = MultiAgentReplayBuffer(n, ["obs", "action", "reward", "next_obs", "done"], ids)
    import random as pyrandom

    for i in range(n):
        o = {a: sp.sample_obs(s, None, rng) for a, s in zip(ids, obs_l)}
        no = {a: sp.sample_obs(s, None, rng) for a, s in zip(ids, obs_l)}
        ac = {}
        for a, s in zip(ids, act_l):
            if isinstance(s, spaces.Discrete):
                z = rng.normal(size=(s.n,))
                ac[a] = (np.exp(z) / np.exp(z).sum()).astype(np.float32)
            else:
                ac[a] = sp.sample_action(s, None, rng)
        r = {a: float(rng.normal()) for a in ids}
        if dones is not None and isinstance(dones[i], (list, tuple)):  # per-agent flags: dones[row][agent]
            d = {a: bool(dones[i][j]) for j, a in enumerate(ids)}
        else:
            d = {a: bool(dones[i]) if dones is not None else bool(rng.integers(0, 2)) for a in ids}
        buf.save_to_memory(o, ac, r, no, d, is_vectorised=False)
    # deterministic order: read rows in insertion order
    exps = list(buf.memory)
    tr = buf._process_transition(exps)
    return tuple(tr.values())


def learn_once(agent, spec, batch_seed, n=None):
    """One learn() call on a generated batch appropriate for the algorithm. Returns the loss."""
    algo = spec["algo"]
    n = n or agent.batch_size
    if algo in SINGLE_DISCRETE or algo in SINGLE_CONT:
        b = offpolicy_batch(agent, spec, n, batch_seed)
        if algo == "Rainbow":
            return agent.learn(b, n_experiences=None, per=False)
        return agent.learn(b)
    if algo in BANDITS:
        return agent.learn(bandit_batch(agent, spec, n, batch_seed))
    if algo in MULTI_OFF:
        return agent.learn(ma_batch(agent, spec, n, batch_seed))
    if algo == "PPO":
        return agent.learn(ppo_rollout(agent, spec, batch_seed))
    if algo == "IPPO":
        return agent.learn(ippo_rollout(agent, spec, batch_seed))
    raise ValueError(algo)


def ppo_rollout(agent, spec, seed, T=4, E=2):
    """Experiences tuple exactly as train_on_policy assembles it."""
    rng = np.random.default_rng(seed)
    obs_space, act_space = spaces_for(spec)
    states, actions, log_probs, rewards, dones, values = [], [], [], [], [], []
    done = np.zeros(E)
    for t in range(T):
        obs = sp.sample_obs(obs_space, E, rng)
        a, lp, _, v = agent.get_action(obs)
        states.append(obs)
        actions.append(a)
        log_probs.append(lp)
        rewards.append(rng.normal(size=(E,)).astype(np.float32))
        dones.append(done)
        values.append(v)
        done = rng.integers(0, 2, size=(E,)).astype(np.float64)
    next_state = sp.sample_obs(obs_space, E, rng)
    return (states, actions, log_probs, rewards, dones, values, next_state, done)


def ippo_rollout(agent, spec, seed, T=3, E=2):
    rng = np.random.default_rng(seed)
    obs_l, act_l = spaces_for(spec)
    ids = AGENT_IDS[: len(obs_l)]
    states = {a: [] for a in ids}
    actions = {a: [] for a in ids}
    log_probs = {a: [] for a in ids}
    rewards = {a: [] for a in ids}
    dones = {a: [] for a in ids}
    values = {a: [] for a in ids}
    done = {a: np.zeros(E) for a in ids}
    for t in range(T):
        obs = {a: sp.sample_obs(s, E, rng) for a, s in zip(ids, obs_l)}
        act, lp, _, v = agent.get_action(obs)
        for a in ids:
            states[a].append(obs[a])
            actions[a].append(act[a])
            log_probs[a].append(lp[a])
            values[a].append(v[a])
            rewards[a].append(rng.normal(size=(E,)).astype(np.float32))
            dones[a].append(done[a])
        done = {a: rng.integers(0, 2, size=(E,)).astype(np.float64) for a in ids}
    next_state = {a: sp.sample_obs(s, E, rng) for a, s in zip(ids, obs_l)}
    return (states, actions, log_probs, rewards, dones, values, next_state, done)


def act_greedy(agent, spec, seed, n=3):
    """Deterministic / greedy action(s) on a generated observation batch."""
    algo = spec["algo"]
    rng = np.random.default_rng(seed)
    if algo in BANDITS:
        ctx = bandit_context(spec, seed)
        # greedy w.r.t. the mean reward network only (no side effects on sigma_inv)
        with torch.no_grad():
            return agent.actor(torch.tensor(ctx)).reshape(-1).numpy().copy()
    obs_space, act_space = spaces_for(spec)
    if algo in MULTI_OFF + MULTI_ON:
        ids = AGENT_IDS[: len(obs_space)]
        obs = {a: sp.sample_obs(s, n, rng) for a, s in zip(ids, obs_space)}
    else:
        obs = sp.sample_obs(obs_space, n, rng)
    if algo in ("DQN", "DDQN"):
        return agent.get_action(obs, epsilon=0.0)
    if algo == "CQN":
        return agent.get_action(obs, epsilon=0.0)
    if algo == "Rainbow":
        return agent.get_action(obs, training=False)
    if algo in SINGLE_CONT:
        return agent.get_action(obs, training=False)
    if algo == "PPO":
        torch.manual_seed(seed)
        a, lp, ent, v = agent.get_action(obs)
        return np.concatenate([np.asarray(a, dtype=np.float64).reshape(n, -1), np.asarray(v, dtype=np.float64).reshape(n, -1)], axis=1)
    if algo in MULTI_OFF:
        torch.manual_seed(seed)  # discrete actors end in a Gumbel-softmax: stochastic even without exploration noise
        cont, disc = agent.get_action(obs, training=False)
        acts = disc if disc is not None else cont
        return np.concatenate([np.asarray(acts[a], dtype=np.float64).reshape(n, -1) for a in sorted(acts)], axis=1)
    if algo == "IPPO":
        torch.manual_seed(seed)
        a, lp, ent, v = agent.get_action(obs)
        return np.concatenate([np.asarray(a[k], dtype=np.float64).reshape(n, -1) for k in sorted(a)]
                              + [np.asarray(v[k], dtype=np.float64).reshape(n, -1) for k in sorted(v)], axis=1)
    raise ValueError(algo)


def act_real(agent, spec, seed, k=2):
    """k real get_action calls with exploration on (these have side effects: noise state, bandit confidence matrix, ...)"""
    algo = spec["algo"]
    rng = np.random.default_rng(seed)
    seed_all(seed)
    out = None
    for _ in range(k):
        if algo in BANDITS:
            out = agent.get_action(bandit_context(spec, int(rng.integers(0, 10**6))))
            continue
        obs_space, _ = spaces_for(spec)
        if algo in MULTI_OFF + MULTI_ON:
            ids = AGENT_IDS[: len(obs_space)]
            obs = {a: sp.sample_obs(s, 1, rng) for a, s in zip(ids, obs_space)}
        else:
            obs = sp.sample_obs(obs_space, 1, rng)
        if algo in ("DQN", "DDQN", "CQN"):
            out = agent.get_action(obs, epsilon=0.5)
        elif algo in MULTI_OFF or algo in SINGLE_CONT:
            out = agent.get_action(obs, training=True)
        else:
            out = agent.get_action(obs)
    return out
