"""Histories of agent operations as JSON op lists, and their interpreter."""
from __future__ import annotations

from hypothesis import strategies as st

from vp.gen import agents as ag

MUT_KINDS = ["none", "arch", "param", "act", "rl_hp"]


def make_mutations(kind, seed, new_layer_prob=0.3, mutate_elite=True, sd=0.1):
    from agilerl.hpo.mutation import Mutations

    probs = {k: 0.0 for k in MUT_KINDS}
    if isinstance(kind, str):
        probs[kind] = 1.0
    else:  # explicit probability vector
        probs = dict(zip(MUT_KINDS, kind))
    return Mutations(no_mutation=probs["none"], architecture=probs["arch"], new_layer_prob=new_layer_prob,
                     parameters=probs["param"], activation=probs["act"], rl_hp=probs["rl_hp"],
                     mutation_sd=sd, mutate_elite=mutate_elite, rand_seed=seed)


def mutate(agent, kind, seed):
    m = make_mutations(kind, seed)
    out = m.mutation([agent])
    return out[0]


def apply_op(agent, spec, op):
    """Advance `agent` by one history op; returns the (possibly new) agent object."""
    k = op[0]
    if k == "learn":
        ag.seed_all(op[1])
        ag.learn_once(agent, spec, op[1])
        return agent
    if k == "act":
        ag.act_real(agent, spec, op[1])
        return agent
    if k == "mutate":
        return mutate(agent, op[1], op[2])
    if k == "clone":
        return agent.clone()
    if k == "tournament":
        from agilerl.hpo.tournament import TournamentSelection

        ag.seed_all(op[1])
        other = agent.clone(index=agent.index + 1)
        agent.fitness.append(1.0)
        other.fitness.append(0.0)
        ts = TournamentSelection(2, True, 2, 1)
        elite, pop = ts.select([agent, other])
        return pop[1 if op[1] % 2 else 0]
    raise ValueError(op)


def history_strategy(max_ops, kinds=("learn", "mutate", "clone", "tournament", "act"), mut_kinds=MUT_KINDS):
    ops = []
    if "act" in kinds:
        ops.append(st.tuples(st.just("act"), st.integers(0, 999)))
    if "learn" in kinds:
        ops.append(st.tuples(st.just("learn"), st.integers(0, 999)))
        ops.append(st.tuples(st.just("learn"), st.integers(0, 999)))
    if "mutate" in kinds:
        ops.append(st.tuples(st.just("mutate"), st.sampled_from(list(mut_kinds)), st.integers(0, 999)))
    if "clone" in kinds:
        ops.append(st.tuples(st.just("clone")))
    if "tournament" in kinds:
        ops.append(st.tuples(st.just("tournament"), st.integers(0, 999)))
    return st.lists(st.one_of(*ops), min_size=0, max_size=max_ops).map(lambda l: [list(o) for o in l])
