"""Scripted deterministic PettingZoo ``ParallelEnv`` family (used by C12, C13 and the vec-env cases of C20).

Everything an instance returns is a pure function of (instance id, seed, episode number, t, agent, action digest), so N
in-process copies built from the same ``spec`` are an exact sequential reference for whatever a vectorised
environment does with N copies living in worker processes.

``spec`` is a JSON dict:

    agents   int 1..3                          number of agents ("agent_0", ...)
    obs      "vector" | "image" | "dict" | "tuple"
    dt       int                               dtype variant of the observation space
    act      "discrete" | "box" | "box1" | "multidiscrete"
    lens     [[int, ...], ...]                 per instance: episode lengths, cycled over episode numbers
    end      ["term" | "trunc" | "mixed", ...] per instance: how the episode ends (mixed: alternating per agent/episode)
    leave    [{"<agent idx>": t, ...}, ...]    per instance: agent (idx >= 1) is terminated at step t and absent afterwards
    info     0 | 1 | 2                         richness of the info dicts
    sleep_us [[int, ...], ...]                 per instance: sleep before each step (cycled), live instances only
    faults   [{"inst", "cmd", "at", "kind", ...}]   live instances only, see ``_maybe_fault``
    fault_log path                             a line is appended right before a fault is delivered

``lens``/``end``/``leave``/``sleep_us`` are indexed ``inst % len``.  Constructors are ``functools.partial`` objects of a
module-level class: picklable and fork friendly.
"""
from __future__ import annotations

import functools
import os
import signal
import time

import numpy as np
from gymnasium import spaces
from pettingzoo import ParallelEnv

KINDS = ["vector", "image", "dict", "tuple"]
ACTS = ["discrete", "box", "box1", "multidiscrete"]
ENDS = ["term", "trunc", "mixed"]
VEC_DTYPES = ["float32", "float64", "int64", "uint8", "int32", "int8"]
COMMANDS = ["reset", "step", "call", "set_attr"]


class ScriptedEnvError(Exception):
    """A non-builtin exception type a sub-environment can raise."""


EXC_TYPES = {"ValueError": ValueError, "RuntimeError": RuntimeError, "KeyError": KeyError,
             "ZeroDivisionError": ZeroDivisionError, "ScriptedEnvError": ScriptedEnvError}


def _box(shape, dtype):
    dt = np.dtype(dtype)
    if dt.kind == "f":
        return spaces.Box(-1.0e6, 1.0e6, shape, dt)
    info = np.iinfo(dt)
    return spaces.Box(info.min, info.max, shape, dt)


def obs_space_for(kind: str, dt: int, k: int) -> spaces.Space:
    """Observation space of agent number k (shapes differ per agent so that agents cannot be confused silently)."""
    if kind == "vector":
        return _box((3 + k,), VEC_DTYPES[dt % len(VEC_DTYPES)])
    if kind == "image":
        v = dt % 3
        if v == 0:
            return _box((3, 4, 4 + k), "uint8")
        if v == 1:
            return _box((1, 5 + k, 4), "float32")
        return _box((2, 3, 3 + k, 2), "uint8")  # rank 4
    if kind == "dict":
        v = dt % 3
        if v == 0:
            return spaces.Dict({"vec": _box((2 + k,), "float32"), "img": _box((1, 3, 3), "uint8"), "cnt": _box((1,), "int64")})
        if v == 1:
            return spaces.Dict({"a": _box((2,), "float64"), "b": _box((3 + k,), "int32")})
        return spaces.Dict({"z": _box((2, 2), "int8"), "m": _box((1 + k,), "float32"), "c": _box((2,), "uint8"), "d": _box((3,), "float64")})
    if kind == "tuple":
        v = dt % 3
        if v == 0:
            return spaces.Tuple((_box((2,), "float64"), _box((2, 2 + k), "uint8")))
        if v == 1:
            return spaces.Tuple((_box((3 + k,), "float32"), _box((1,), "int64"), _box((2,), "int8")))
        return spaces.Tuple((_box((1, 2, 2), "uint8"), _box((2 + k,), "float32")))
    raise ValueError(kind)


def act_space_for(act: str, k: int) -> spaces.Space:
    if act == "discrete":
        return spaces.Discrete(3 + k)
    if act == "box":
        return spaces.Box(-2.0, 2.0, (2 + k,), np.float32)
    if act == "box1":
        return spaces.Box(-2.0, 2.0, (1,), np.float32)
    if act == "multidiscrete":
        return spaces.MultiDiscrete([2, 3 + k])
    raise ValueError(act)


def sample_actions(spec: dict, n_envs: int, rng) -> dict:
    """One batched action dict as the training loops hand it to ``vec_env.step``: (n,) ints for Discrete,
    (n, *shape) arrays otherwise.  Continuous values are multiples of 1/4 (exact in float32)."""
    out = {}
    for k in range(spec["agents"]):
        sp_ = act_space_for(spec["act"], k)
        if isinstance(sp_, spaces.Discrete):
            out[f"agent_{k}"] = rng.integers(0, sp_.n, size=n_envs).astype(np.int64)
        elif isinstance(sp_, spaces.MultiDiscrete):
            out[f"agent_{k}"] = np.stack([rng.integers(0, m, size=n_envs) for m in sp_.nvec], axis=1).astype(np.int64)
        else:
            out[f"agent_{k}"] = (rng.integers(-8, 9, size=(n_envs, *sp_.shape)) / 4.0).astype(np.float32)
    return out


def action_digest(a) -> int:
    """Shape-insensitive integer digest of one agent's action (what the script makes observations/rewards depend on)."""
    arr = np.asarray(a)
    if arr.dtype.kind == "f":
        flat = np.round(arr.astype(np.float64).reshape(-1) * 4.0).astype(np.int64)
    else:
        flat = arr.astype(np.int64).reshape(-1)
    return int(sum(int(v) * (j + 1) for j, v in enumerate(flat)))


def _fill(space: spaces.Box, base: int) -> np.ndarray:
    n = int(np.prod(space.shape))
    v = base + 31 * np.arange(n, dtype=np.int64)
    dt = space.dtype
    if dt == np.uint8:
        out = v % 256
    elif dt == np.int8:
        out = v % 256 - 128
    elif dt == np.int32:
        out = (v * 7919) % 2_000_001 - 1_000_000
    elif dt == np.int64:
        out = (v * 1_000_003) % (1 << 40) - (1 << 39)  # needs more than 32 bits
    elif dt == np.float32:
        out = (v % 4096) / 8.0 - 100.0
    elif dt == np.float64:
        out = (v % 1_048_576) / 7.0 - 1000.0  # not representable in float32
    else:
        raise ValueError(dt)
    return np.asarray(out).astype(dt).reshape(space.shape)


def _relayout(o):
    """the same array values as a non C-contiguous array (Fortran order) for every leaf of rank >= 2"""
    if isinstance(o, dict):
        return {k: _relayout(v) for k, v in o.items()}
    if isinstance(o, tuple):
        return tuple(_relayout(v) for v in o)
    a = np.asarray(o)
    return np.asfortranarray(a) if a.ndim >= 2 else a


def make_obs(space: spaces.Space, base: int):
    if isinstance(space, spaces.Dict):
        return {key: _fill(sub, base + 1009 * (j + 1)) for j, (key, sub) in enumerate(space.spaces.items())}
    if isinstance(space, spaces.Tuple):
        return tuple(_fill(sub, base + 1009 * (j + 1)) for j, sub in enumerate(space.spaces))
    return _fill(space, base)


class ScriptedPZ(ParallelEnv):
    metadata = {"name": "scripted_pz_v0", "render_modes": []}
    render_mode = None

    def __init__(self, spec: dict, inst: int = 0, live: bool = True):
        self.spec = spec
        self.inst = int(inst)
        self.live = bool(live)
        self.n_agents = int(spec["agents"])
        self.possible_agents = [f"agent_{k}" for k in range(self.n_agents)]
        self.agents = []
        self._obs_spaces = {a: obs_space_for(spec["obs"], spec.get("dt", 0), k) for k, a in enumerate(self.possible_agents)}
        self._act_spaces = {a: act_space_for(spec["act"], k) for k, a in enumerate(self.possible_agents)}
        pick = lambda name, default: (spec.get(name) or [default])[self.inst % len(spec.get(name) or [default])]
        self.lens = list(pick("lens", [1_000_000]))
        self.end = pick("end", "term")
        self.leave = {int(k): int(v) for k, v in dict(pick("leave", {})).items()}
        self.sleeps = list(pick("sleep_us", [0]))
        self.info_kind = int(spec.get("info", 0))
        self.faults = [f for f in spec.get("faults", []) if int(f["inst"]) == self.inst] if self.live else []
        self.counts = {c: 0 for c in COMMANDS}
        self.delivered = 0
        self.episode = -1
        self.t = 0
        self.seed_val = 0
        self.offset = 0
        self.total_steps = 0
        self._knob = 0
        self.closed = False
        self.action_shape_errors = []  # [agent, shape received, shape of the action space]

    # -- spaces -------------------------------------------------------------
    def observation_space(self, agent):
        return self._obs_spaces[agent]

    def action_space(self, agent):
        return self._act_spaces[agent]

    # -- script -------------------------------------------------------------
    def ep_len(self, episode=None):
        e = self.episode if episode is None else episode
        return self.lens[e % len(self.lens)]

    def _base(self, k, digest):
        return (self.inst * 1_000_003 + self.seed_val * 50_021 + self.offset * 211 + self.episode * 10_007
                + self.t * 101 + k * 13 + digest * 7)

    def _obs(self, k, digest):
        o = make_obs(self._obs_spaces[f"agent_{k}"], self._base(k, digest))
        if int(self.spec.get("layout", 0)):
            # same VALUES, another memory layout: environments hand out transposed / channel-moved views of their own buffers
            o = _relayout(o)
        return o

    def _reward(self, k, digest):
        return float(self.inst + 0.5 * self.episode + 0.25 * self.t + 0.125 * k + 2.0 * digest + 16.0 * self.seed_val)

    def _info(self, k, step: bool):
        if self.info_kind == 0:
            return {}
        d = {"ep": self.episode, "t": self.t}
        if self.info_kind >= 2:
            d["f"] = 0.5 * self.t + self.inst
            d["arr"] = np.array([self.inst, self.episode, self.t + k], dtype=np.int64)
            d["tag"] = f"i{self.inst}e{self.episode}t{self.t}"
            if step and (self.inst + self.t) % 2 == 0:
                d["sometimes"] = self.t  # a key only some sub-environments report at a given step
        return d

    # -- faults -------------------------------------------------------------
    def _maybe_fault(self, cmd):
        n = self.counts[cmd]
        self.counts[cmd] = n + 1
        for f in self.faults:
            if f["cmd"] == cmd and int(f["at"]) == n:
                self.delivered += 1
                log = self.spec.get("fault_log")
                if log:
                    fd = os.open(log, os.O_WRONLY | os.O_APPEND | os.O_CREAT, 0o600)
                    os.write(fd, f"{self.inst} {cmd} {n} {f['kind']}\n".encode())
                    os.close(fd)
                if f["kind"] == "raise":
                    raise EXC_TYPES[f.get("exc", "ValueError")](f"injected fault inst={self.inst} cmd={cmd} at={n}")
                if f["kind"] == "sleep":
                    time.sleep(float(f.get("secs", 1.0)))
                elif f["kind"] == "kill":
                    os.kill(os.getpid(), signal.SIGKILL)
                    time.sleep(60)  # never reached
                else:
                    raise ValueError(f["kind"])

    # -- API ----------------------------------------------------------------
    def reset(self, seed=None, options=None):
        self._maybe_fault("reset")
        if seed is not None:
            self.seed_val = int(seed) % 997
        if options and "offset" in options:
            self.offset = int(options["offset"])
        self.episode += 1
        self.t = 0
        self.agents = list(self.possible_agents)
        obs = {a: self._obs(k, 0) for k, a in enumerate(self.possible_agents)}
        infos = {a: self._info(k, False) for k, a in enumerate(self.possible_agents)}
        return obs, infos

    def step(self, actions):
        if self.live:
            us = self.sleeps[self.total_steps % len(self.sleeps)]
            if us:
                time.sleep(us / 1e6)
        self._maybe_fault("step")
        self.total_steps += 1
        self.t += 1
        L = self.ep_len()
        obs, rew, term, trunc, info = {}, {}, {}, {}, {}
        leaving = []
        for a in list(self.agents):
            k = int(a.split("_")[1])
            dg = action_digest(actions[a])
            want_shape = tuple(self._act_spaces[a].shape)
            if tuple(np.shape(actions[a])) != want_shape and len(self.action_shape_errors) < 4:
                self.action_shape_errors.append([a, list(np.shape(actions[a])), list(want_shape)])
            obs[a] = self._obs(k, dg)
            rew[a] = self._reward(k, dg)
            te = tr = False
            if self.t >= L:
                if self.end == "term":
                    te = True
                elif self.end == "trunc":
                    tr = True
                else:
                    te = (k + self.episode) % 2 == 0
                    tr = not te
            elif self.leave.get(k) == self.t and k >= 1:
                te = True
                leaving.append(a)
            term[a], trunc[a] = te, tr
            info[a] = self._info(k, True)
        if self.t >= L:
            self.agents = []
        else:
            self.agents = [a for a in self.agents if a not in leaving]
        return obs, rew, term, trunc, info

    # things reachable through vec_env.call / set_attr
    def ping(self, x=0):
        self._maybe_fault("call")
        return [self.inst, int(x), self.counts["call"]]

    def stats(self):
        """never faults: read the script's own counters back"""
        return {"inst": self.inst, "episode": self.episode, "t": self.t, "total_steps": self.total_steps,
                "counts": dict(self.counts), "delivered": self.delivered, "knob": self._knob, "pid": os.getpid(),
                "action_shape_errors": list(self.action_shape_errors)}

    @property
    def knob(self):
        return self._knob

    @knob.setter
    def knob(self, value):
        self._maybe_fault("set_attr")
        self._knob = value

    def render(self):
        return None

    def close(self):
        self.closed = True


def make_env_fns(spec: dict, n: int, live: bool = True):
    return [functools.partial(ScriptedPZ, spec, i, live) for i in range(n)]


# ---------------------------------------------------------------------------
# sequential reference with the documented auto-reset rule
# ---------------------------------------------------------------------------

class SequentialReference:
    """N in-process instances stepped one after the other.  Rule: when every agent of env i that took part in the step is
    terminated or truncated, env i (only) is reset; the observation reported for it is the first observation of the new
    episode, reward / termination / truncation are those of the final step."""

    def __init__(self, spec: dict, n: int):
        self.envs = [ScriptedPZ(spec, i, live=False) for i in range(n)]
        self.n = n

    def reset(self, seed=None, options=None):
        out = []
        for i, e in enumerate(self.envs):
            s = None if seed is None else seed + i
            out.append(e.reset(seed=s, options=options))
        return out  # [(obs, info)] per env

    def step(self, actions: dict):
        """actions: batched dict agent -> array with leading dim n.  Returns per env a record."""
        recs = []
        for i, e in enumerate(self.envs):
            acts = {a: np.asarray(actions[a][i]) for a in e.possible_agents}
            present = list(e.agents)
            obs, rew, term, trunc, info = e.step(acts)
            done = all(bool(term[a]) or bool(trunc[a]) for a in present)
            rec = {"present": present, "step_obs": obs, "obs": obs, "rew": rew, "term": term, "trunc": trunc,
                   "info": info, "reset": False, "reset_info": None}
            if done:
                o2, i2 = e.reset()
                rec.update(obs=o2, reset=True, reset_info=i2)
            recs.append(rec)
        return recs
