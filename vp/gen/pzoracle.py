"""Position-by-position comparison of what a vectorised PettingZoo environment returned with the sequential reference
(``vp.gen.pzenvs.SequentialReference``).  Runs inside the sacrificial child, so verdicts are collected in a
``Findings`` object (plain JSON) and replayed through ``ctx`` by the parent (``Findings.replay``)."""
from __future__ import annotations

import os
import traceback

import numpy as np
from gymnasium import spaces


def site_of(exc: BaseException) -> str:
    best = None
    for fr in traceback.extract_tb(exc.__traceback__):
        fn = fr.filename.replace("\\", "/")
        if "/agilerl/" in fn:
            best = f"{os.path.basename(fn)}:{fr.name}"
    return best or "outside-agilerl"


class Findings:
    def __init__(self):
        self.items = []  # [sig, msg, details, fatal]
        self.labels = []
        self.nontrivial = None
        self.seen = set()

    def fail(self, sig, msg, **details):
        if sig in self.seen:  # one report per class and case is enough
            return
        self.seen.add(sig)
        self.items.append([sig, msg, details, False])

    def exc(self, site, e, **details):
        """an exception from a call the statement promises to succeed"""
        sig = f"{site}/{type(e).__name__}@{site_of(e)}"
        self.items.append([sig, f"{type(e).__name__}: {str(e)[:300]}",
                           dict(details, traceback="".join(traceback.format_exception(e))[-1500:]), True])

    def label(self, name):
        self.labels.append(name)

    def out(self, **extra):
        return dict(extra, findings=self.items, labels=self.labels, nontrivial=self.nontrivial)

    @staticmethod
    def replay(result, ctx):
        for l in result.get("labels", []):
            ctx.label(l)
        if result.get("nontrivial") is not None:
            ctx.nontrivial(result["nontrivial"])
        for sig, msg, details, fatal in result.get("findings", []):
            if fatal:
                ctx.abort(sig, msg, **details)
            else:
                ctx.fail(sig, msg, **details)


# ---------------------------------------------------------------------------

def _leaf_pairs(space, got):
    """[(name, subspace, batched array)] ; raises KeyError/IndexError/TypeError when the structure is wrong"""
    if isinstance(space, spaces.Dict):
        return [(f"[{k!r}]", sub, got[k]) for k, sub in space.spaces.items()]
    if isinstance(space, spaces.Tuple):
        if not isinstance(got, (tuple, list)) or len(got) != len(space.spaces):
            raise TypeError(f"expected a tuple of {len(space.spaces)} members, got {type(got).__name__}")
        return [(f"[{j}]", sub, got[j]) for j, sub in enumerate(space.spaces)]
    return [("", space, got)]


def check_declared(F: Findings, prefix, space, got, n, agent, where):
    """declared shapes / dtypes of one agent's batched observation; returns True when positions can be compared"""
    try:
        leaves = _leaf_pairs(space, got)
    except (KeyError, IndexError, TypeError) as e:
        F.fail(f"{prefix}/obs_structure", f"observation of {agent} does not have the structure of its space: {e}", where=where)
        return False
    ok = True
    for name, sub, arr in leaves:
        if not isinstance(arr, np.ndarray):
            F.fail(f"{prefix}/obs_structure", f"observation{name} of {agent} is {type(arr).__name__}, not an array", where=where)
            ok = False
            continue
        if tuple(arr.shape) != (n, *sub.shape):
            F.fail(f"{prefix}/obs_shape", f"observation{name} of {agent} has shape {arr.shape}, declared {(n, *sub.shape)}",
                   where=where, space=repr(sub))
            ok = False
        if arr.dtype != sub.dtype:
            F.fail(f"{prefix}/obs_dtype", f"observation{name} of {agent} has dtype {arr.dtype}, declared {sub.dtype}",
                   where=where, space=repr(sub))
    return ok


def take(space, got, i):
    """position i of a batched observation, as the single environment would return it"""
    if isinstance(space, spaces.Dict):
        return {k: np.asarray(got[k][i]) for k in space.spaces}
    if isinstance(space, spaces.Tuple):
        return tuple(np.asarray(got[j][i]) for j in range(len(space.spaces)))
    return np.asarray(got[i])


def same_obs(space, a, b) -> bool:
    if isinstance(space, spaces.Dict):
        return all(np.array_equal(np.asarray(a[k]), np.asarray(b[k])) for k in space.spaces)
    if isinstance(space, spaces.Tuple):
        return all(np.array_equal(np.asarray(a[j]), np.asarray(b[j])) for j in range(len(space.spaces)))
    return np.array_equal(np.asarray(a), np.asarray(b))


def brief(x):
    if isinstance(x, dict):
        return {k: brief(v) for k, v in x.items()}
    if isinstance(x, (tuple, list)):
        return [brief(v) for v in x]
    return np.asarray(x).reshape(-1)[:6].tolist()


def info_of_env(vec_infos, i, want: dict, n):
    """None if the batched infos hold exactly env i's info dict `want` (agent -> dict) at position i, else a reason"""
    for agent, d in want.items():
        if not isinstance(vec_infos, dict) or agent not in vec_infos:
            if d:
                return f"no entry for {agent}"
            continue
        sub = vec_infos[agent]
        for key, v in d.items():
            if key not in sub:
                return f"{agent}.{key} missing"
            mask = sub.get(f"_{key}")
            if mask is None or len(mask) != n or not bool(mask[i]):
                return f"mask _{key} of {agent} not set at position {i}"
            got = sub[key][i]
            if isinstance(v, np.ndarray):
                if not np.array_equal(np.asarray(got), v):
                    return f"{agent}.{key}[{i}] = {np.asarray(got).tolist()} != {v.tolist()}"
            elif not (got == v):
                return f"{agent}.{key}[{i}] = {got!r} != {v!r}"
        for key in sub:
            if key.startswith("_") or key in d:
                continue
            mask = sub.get(f"_{key}")
            if mask is not None and bool(mask[i]):
                return f"{agent}.{key} is marked present at position {i} but the environment did not report it"
    return None


def compare_reset(F, prefix, vec, n, out, ref_out, where):
    agents = list(vec.possible_agents)
    try:
        obs, infos = out
    except (TypeError, ValueError):
        F.fail(f"{prefix}/reset_result", "reset() did not return (observations, infos)", where=where)
        return
    for a in agents:
        space = vec.single_observation_space(a)
        try:
            got = obs[a]
        except (KeyError, TypeError):
            F.fail(f"{prefix}/obs_structure", f"no observation for {a} after reset", where=where)
            continue
        if not check_declared(F, prefix, space, got, n, a, where):
            continue
        for i in range(n):
            want = ref_out[i][0][a]
            g = take(space, got, i)
            if not same_obs(space, g, want):
                other = [j for j in range(n) if j != i and same_obs(space, g, ref_out[j][0][a])]
                cls = "reset_obs_from_other_env" if other else "reset_obs_value"
                F.fail(f"{prefix}/{cls}", f"observation of {a} at position {i} after reset() differs from what environment {i} returns "
                       "when reset alone", where=where, env=i, agent=a, got=brief(g), want=brief(want), matches_env=other)
    for i in range(n):
        why = info_of_env(infos, i, ref_out[i][1], n)
        if why:
            F.fail(f"{prefix}/reset_info", f"info of environment {i} after reset(): {why}", where=where, env=i)


def compare_step(F, prefix, vec, n, out, recs, prev_obs, where):
    """out: what vec.step returned; recs: SequentialReference.step records; prev_obs: per agent list of per-env
    observations reported at the previous call (to recognise stale data) or None.  Returns the per-agent list of
    per-position observations actually reported (or None)."""
    agents = list(vec.possible_agents)
    try:
        obs, rew, term, trunc, infos = out
    except (TypeError, ValueError):
        F.fail(f"{prefix}/step_result", "step() did not return a 5-tuple", where=where)
        return None
    reported = {}
    for a in agents:
        space = vec.single_observation_space(a)
        try:
            got = obs[a]
        except (KeyError, TypeError):
            F.fail(f"{prefix}/obs_structure", f"no observation for {a}", where=where)
            continue
        if not check_declared(F, prefix, space, got, n, a, where):
            continue
        reported[a] = [take(space, got, i) for i in range(n)]
        for i, rec in enumerate(recs):
            if a not in rec["obs"]:
                continue  # absent agent, no restart: only shape/dtype are required
            want = rec["obs"][a]
            g = reported[a][i]
            if same_obs(space, g, want):
                continue
            if rec["reset"]:
                if a in rec["step_obs"] and same_obs(space, g, rec["step_obs"][a]):
                    F.fail(f"{prefix}/obs_after_autoreset_is_terminal_obs",
                           f"environment {i} finished its episode at this step and was reset, but the observation reported for {a} is the "
                           "last observation of the finished episode, not the first observation of the new one",
                           where=where, env=i, agent=a, got=brief(g), want=brief(want))
                else:
                    F.fail(f"{prefix}/obs_after_autoreset_wrong",
                           f"environment {i} finished its episode at this step; the observation reported for {a} is neither the first "
                           "observation of the new episode nor the terminal one", where=where, env=i, agent=a, got=brief(g), want=brief(want))
                continue
            other = [j for j in range(n) if j != i and a in recs[j]["obs"] and same_obs(space, g, recs[j]["obs"][a])]
            if other:
                cls = "obs_from_other_env"
            elif prev_obs is not None and a in prev_obs and same_obs(space, g, prev_obs[a][i]):
                cls = "obs_stale"
            else:
                cls = "obs_value"
            F.fail(f"{prefix}/{cls}", f"observation of {a} at position {i} differs from what environment {i} returns when stepped alone",
                   where=where, env=i, agent=a, got=brief(g), want=brief(want), matches_env=other,
                   space=repr(space))
    for name, batch, key, cast in (("reward", rew, "rew", float), ("termination", term, "term", bool), ("truncation", trunc, "trunc", bool)):
        for a in agents:
            try:
                arr = np.asarray(batch[a])
            except (KeyError, TypeError):
                F.fail(f"{prefix}/{name}_missing", f"no {name} for {a}", where=where)
                continue
            if arr.shape != (n,):
                F.fail(f"{prefix}/{name}_shape", f"{name} of {a} has shape {arr.shape}, expected ({n},)", where=where)
                continue
            for i, rec in enumerate(recs):
                if a in rec[key]:
                    if cast(arr[i]) != cast(rec[key][a]):
                        F.fail(f"{prefix}/{name}_value", f"{name} of {a} at position {i} is {arr[i]!r}, environment {i} stepped alone "
                               f"returns {rec[key][a]!r}", where=where, env=i, agent=a, finished=rec["reset"])
                elif name == "termination" and not bool(arr[i]):
                    F.fail(f"{prefix}/absent_agent_not_terminated", f"{a} has left environment {i} but is not reported terminated",
                           where=where, env=i, agent=a)
    for i, rec in enumerate(recs):
        why = info_of_env(infos, i, rec["info"], n)
        if why and rec["reset"]:
            why2 = info_of_env(infos, i, rec["reset_info"], n)  # either the final step's info or the new episode's is accepted
            why = why if why2 else None
        if why:
            F.fail(f"{prefix}/info_value", f"info of environment {i}: {why}", where=where, env=i, finished=rec["reset"])
    return reported
