#!/venv/bin/python
"""tools/store_seed.py PID [name] - copy a validated seeded change from /tmp/seed_out/PID into /verif/seeded/<name>/ and
record what was run (reads /tmp/val_PID_*.txt written by tools/validate_seed.sh)."""
import json, os, re, shutil, sys
pid = sys.argv[1]; name = sys.argv[2] if len(sys.argv) > 2 else pid
src = os.environ.get("SEED_SRC", f"/tmp/seed_out/{pid}"); dst = f"/verif/seeded/{name}"
os.makedirs(dst, exist_ok=True)
for f in ("patch.diff", "demo.py"):
    shutil.copy(os.path.join(src, f), os.path.join(dst, f))
meta = json.load(open(os.path.join(src, "meta.json"))) if os.path.exists(os.path.join(src, "meta.json")) else {}
chk = open(f"/tmp/val_{pid}_check.txt").read()
sigs = re.findall(r"signature=(\S+)", chk)
tier = [l for l in chk.splitlines() if " tier=" in l]
meta["breaks_property"] = pid
meta["origin"] = "written by a fresh sub-agent that saw only the property text and its own scratch worktree (nothing from /verif)"
meta["confirmed_by_main_session"] = {
    "procedure": "tools/validate_seed.sh: fresh worktree of /repo HEAD outside /repo and /verif; demo.py on unchanged tree; git apply patch.diff; demo.py again; ./check with VERIF_REPO=<worktree>; worktree removed",
    "demo_on_unchanged_tree": open(f"/tmp/val_{pid}_demo0.txt").read().strip().splitlines()[-1:] ,
    "demo_on_changed_tree": open(f"/tmp/val_{pid}_demo1.txt").read().strip().splitlines()[-1:],
    "check_command": f"VERIF_REPO=<worktree with patch> ./check {pid} --tier quick",
    "check_exit_code": 1 if sigs else 0,
    "check_signatures": sorted(set(sigs))[:8],
    "check_summary": tier[-1] if tier else "",
}
meta["detected"] = bool(sigs)
json.dump(meta, open(os.path.join(dst, "meta.json"), "w"), indent=1)
print(dst, "detected" if sigs else "MISSED", sorted(set(sigs))[:3])
