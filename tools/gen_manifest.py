#!/venv/bin/python
"""Regenerates MANIFEST.json from tools/manifest_table.json (claimed checks) + properties.jsonl."""
import json, os
V = os.path.dirname(os.path.dirname(os.path.abspath(__file__)))
table = json.load(open(os.path.join(V, "tools", "manifest_table.json")))
props = [json.loads(l) for l in open(os.path.join(V, "properties.jsonl"))]
checks, na = [], []
for p in props:
    pid = p["id"]
    t = table.get(pid)
    if not t or t.get("not_applicable"):
        na.append({"property_id": pid, "reason": (t or {}).get("not_applicable", "check not built yet in this round (planned in DESIGN.md section 3)")})
        continue
    checks.append({
        "property_id": pid,
        "quick_cmd": f"./check {pid} --tier quick",
        "thorough_cmd": f"./check {pid} --tier thorough",
        "evidence_file": f"/verif/evidence/{pid}.json",
        "replay_cmd_template": f"./check {pid} --replay {{path}}",
        "engine": "vp",
        "level_claimed": {"category": t.get("level", "exploration"), "text": t["text"], "design_ref": f"DESIGN.md section 3 / {pid}"},
        "level_note": t["note"],
        "technique": t["technique"],
    })
m = {
    "version": 1,
    "setup_cmd": "./setup.sh",
    "hooks": {
        "guard": "AGILERL_VERIF",
        "enable": "no source hooks: the harness intercepts module-level names in its own process only; AGILERL_VERIF is reserved and unused",
        "baseline_off_cmd": "cd /repo && /venv/bin/python -m pytest -ra -q -p no:cacheprovider --timeout=900 --continue-on-collection-errors",
        "source_commits": [],
        "add_only": True,
    },
    "engines": [{"name": "vp", "path": "/verif/vp", "serves_properties": [c["property_id"] for c in checks],
                 "kind_free_text": "Hypothesis-driven generated-input search against explicit oracles (reference models, differential, metamorphic, invariants over op histories), exhaustive small-scope enumeration, collect-classify-continue driver, JSON replay files"}],
    "checks": checks,
    "not_applicable": na,
    "notes": "All checks run /repo's working tree in-process (PYTHONPATH first entry); see DESIGN.md. known_findings.json lists genuine defects (known / fixed).",
}
json.dump(m, open(os.path.join(V, "MANIFEST.json"), "w"), indent=1)
print("claimed:", [c["property_id"] for c in checks]); print("not_applicable:", [n["property_id"] for n in na])
