#!/bin/bash
# Runs the repository's pinned test suite (parallel, for my own validation) and compares with BASELINE.json stable_pass.
OUT=${1:-/tmp/vp_baseline.xml}
export OMP_NUM_THREADS=${OMP_NUM_THREADS:-1} MKL_NUM_THREADS=${MKL_NUM_THREADS:-1}  # 12 xdist workers x 16 torch threads drove the load to 140
cd /repo && /venv/bin/python -m pytest -q -p no:cacheprovider --timeout=900 --continue-on-collection-errors -n ${JOBS:-12} --junitxml=$OUT > /tmp/vp_baseline.log 2>&1
/venv/bin/python - $OUT <<'PY'
import json, sys, xml.etree.ElementTree as ET
b = json.load(open('/root/.vp/BASELINE.json'))
want = set(b['stable_pass'])
passed = set()
for tc in ET.parse(sys.argv[1]).getroot().iter('testcase'):
    if not any(c.tag in ('failure', 'error', 'skipped') for c in tc):
        passed.add(f"{tc.get('classname')}::{tc.get('name')}")
missing = sorted(want - passed)
print(f"stable_pass={len(want)} passed_now={len(passed)} stable_pass_now_failing={len(missing)} newly_passing={len(passed-want)}")
for m in missing[:40]:
    print("  LOST", m)
PY
