#!/bin/bash
# Quietness sweep: every claimed quick check at several VERIF_SEED values; prints only non-zero exits.
cd "$(dirname "$0")/.."
for sd in ${SEEDS:-2 3 4 5}; do
  for p in $(/venv/bin/python -c "import json;print(' '.join(c['property_id'] for c in json.load(open('MANIFEST.json'))['checks']))"); do
    VERIF_SEED=$sd ./check $p --tier quick --no-evidence > /tmp/sweep_${p}_$sd.txt 2>&1; rc=$?
    echo "seed=$sd $p rc=$rc $(grep -E ' tier=|HARNESS|signature=' /tmp/sweep_${p}_$sd.txt | tr '\n' ' ' | cut -c1-220)"
  done
done
