#!/venv/bin/python
"""Sensitivity self-test: apply each small semantic mutant of AgileRL (mutants/CXX.json:
[{name, file, old, new}], exact string replacement) to a scratch copy of /repo/agilerl, run the
quick check with VERIF_REPO pointing at the copy and expect exit 1 (VIOLATION).
usage: tools/selftest.py [CXX ...] [--only name] [--tier quick]"""
import json, os, shutil, subprocess, sys, tempfile, time
V = os.path.dirname(os.path.dirname(os.path.abspath(__file__)))
args = [a for a in sys.argv[1:] if not a.startswith("--")]
only = None
if "--only" in sys.argv:
    only = sys.argv[sys.argv.index("--only") + 1]; args = [a for a in args if a != only]
pids = args or sorted(f[:-5] for f in os.listdir(os.path.join(V, "mutants")) if f.endswith(".json"))
summary = []
for pid in pids:
    muts = json.load(open(os.path.join(V, "mutants", pid + ".json")))
    for m in muts:
        if only and m["name"] != only:
            continue
        d = tempfile.mkdtemp(prefix="vpmut_")
        try:
            shutil.copytree("/repo/agilerl", os.path.join(d, "agilerl"), ignore=shutil.ignore_patterns("__pycache__"))
            p = os.path.join(d, m["file"])
            s = open(p).read()
            if s.count(m["old"]) != 1:
                summary.append((pid, m["name"], f"PATCH-DOES-NOT-APPLY (count={s.count(m['old'])})")); continue
            open(p, "w").write(s.replace(m["old"], m["new"]))
            env = dict(os.environ, VERIF_REPO=d, VERIF_SEED=os.environ.get("VERIF_SEED", "1"), VERIF_SELFTEST="1")
            t = time.time()
            r = subprocess.run([os.path.join(V, "check"), pid, "--tier", "quick", "--no-evidence"] + (["--only", m["obligation"]] if m.get("obligation") else []),
                               env=env, capture_output=True, text=True)
            sigs = [l.strip() for l in r.stdout.splitlines() if l.strip().startswith("signature=")]
            verdict = {1: "KILLED", 0: "SURVIVED", 2: "HARNESS-ERROR"}.get(r.returncode, f"rc={r.returncode}")
            summary.append((pid, m["name"], f"{verdict} {time.time()-t:.0f}s {sigs[:2]}"))
            if r.returncode == 2:
                print(r.stdout[-1500:])
        finally:
            shutil.rmtree(d, ignore_errors=True)
            # new-*.json replays written against the mutant are noise
            for f in os.listdir(os.path.join(V, "replays", pid)) if os.path.isdir(os.path.join(V, "replays", pid)) else []:
                if f.startswith("new-"):
                    os.remove(os.path.join(V, "replays", pid, f))
for s in summary:
    print(*s)
bad = [s for s in summary if not s[2].startswith("KILLED")]
sys.exit(1 if bad else 0)
