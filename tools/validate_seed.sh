#!/bin/bash
# tools/validate_seed.sh <PID> [seed_dir]   - confirm a seeded breaking change and run the check against it.
# Uses a scratch worktree of /repo HEAD outside /repo and /verif; removes it afterwards.
PID=$1; SRC=${2:-/tmp/seed_out/$PID}; WT=/tmp/val_$PID
set -u
cd /verif
git -C /repo worktree remove --force $WT 2>/dev/null; rm -rf $WT
git -C /repo worktree add -q --detach $WT HEAD || exit 2
export OMP_NUM_THREADS=1 MKL_NUM_THREADS=1 WANDB_MODE=disabled DS_ACCELERATOR=cpu
echo "== demo on unchanged tree (expect 0)"; (cd $WT && timeout 300 /venv/bin/python $SRC/demo.py > /tmp/val_${PID}_demo0.txt 2>&1); D0=$?; tail -2 /tmp/val_${PID}_demo0.txt
echo "== apply patch"; git -C $WT apply $SRC/patch.diff || { echo "PATCH DOES NOT APPLY"; git -C /repo worktree remove --force $WT; exit 3; }
echo "== demo on changed tree (expect 1)"; (cd $WT && timeout 300 /venv/bin/python $SRC/demo.py > /tmp/val_${PID}_demo1.txt 2>&1); D1=$?; tail -2 /tmp/val_${PID}_demo1.txt
echo "== check $PID against changed tree"; VERIF_REPO=$WT VERIF_JOBS=${VERIF_JOBS:-10} ./check $PID --tier quick --no-evidence > /tmp/val_${PID}_check.txt 2>&1; C=$?
grep -E "signature=|tier=" /tmp/val_${PID}_check.txt | head -8
rm -f replays/$PID/new-*.json
echo "RESULT pid=$PID demo_unchanged=$D0 demo_changed=$D1 check_exit=$C"
git -C /repo worktree remove --force $WT
