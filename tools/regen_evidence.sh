#!/bin/bash
# Re-run every claimed quick check on the current tree (sequentially) so that evidence/*.json describes clean runs.
cd "$(dirname "$0")/.."
rm -f replays/*/new-*.json
for p in $(/venv/bin/python -c "import json;print(' '.join(c['property_id'] for c in json.load(open('MANIFEST.json'))['checks']))"); do
  ./check $p --tier quick > /tmp/regen_$p.txt 2>&1; rc=$?
  echo "$p rc=$rc $(grep -E ' tier=' /tmp/regen_$p.txt | tail -1)"
done
