#!/bin/bash
# Offline setup: make sure hypothesis is importable by /venv/bin/python; fetch atheris for the thorough tier.
cd "$(dirname "$0")"
export PIP_NO_INDEX=1
/venv/bin/python -c "import hypothesis" 2>/dev/null || \
  /venv/bin/pip install --no-index --find-links /opt/veriftools/wheels hypothesis || exit 1
if [ ! -d .deps/atheris ]; then
  /venv/bin/pip install --no-index --find-links /opt/veriftools/wheels --target .deps atheris >/dev/null 2>&1 || \
    echo "atheris not installed (thorough tier falls back to hypothesis only)"
fi
mkdir -p evidence replays
/venv/bin/python -c "import hypothesis, torch, agilerl; print('setup ok', hypothesis.__version__)"
